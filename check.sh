#!/bin/sh
# usage: check.sh <property> <quick|thorough>
# Runs govc (built by setup) against /repo's current working tree.
export GOFLAGS=-mod=mod GOPROXY=off GOSUMDB=off GOTOOLCHAIN=local GOWORK=off
cd /verif || exit 2
[ -x /verif/bin/govc ] || sh /verif/setup.sh >/dev/null 2>&1 || { echo "govc build failed"; exit 2; }
exec /verif/bin/govc check -prop "$1" -tier "${2:-quick}"
