//go:build verif

package ast

// Contracts for the AST package (used by the compiler's stack-height proof, C04).

// ---- pure interface methods (every implementation only reads the tree) -------------------------------

//@ func (Node).String
//@ trusted
//@ modifies nothing

//@ func (Node).Literal
//@ trusted
//@ modifies nothing

// IsExpression: characterised over the real method bodies by the harness verifIsExpression below.
//@ func (Node).IsExpression
//@ trusted
//@ modifies nothing
//@ ensures result == (implements(self, Expression) && !(typeof(self) == *Func && self.(*Func).name != nil))

func verifIsExpression(n Node) bool { return n.IsExpression() }

//@ func verifIsExpression
//@ props C04
//@ dispatch *Assign *Block *Bool *Call *Case *Const *Control *Defer *Float *For *ForIn *FromImport *Func *GetAttr *Go *Ident *If *Import *In *Index *Infix *Int *List *Map *MultiVar *Nil *NotIn *ObjectCall *Pipe *Postfix *Prefix *Program *Range *Receive *Return *Send *Set *SetAttr *Slice *String *Switch *Ternary *Var
//@ requires n != nil && ref(n) != nil
//@ requires oneof(typeof(n), *Assign, *Block, *Bool, *Call, *Case, *Const, *Control, *Defer, *Float, *For, *ForIn, *FromImport, *Func, *GetAttr, *Go, *Ident, *If, *Import, *In, *Index, *Infix, *Int, *List, *Map, *MultiVar, *Nil, *NotIn, *ObjectCall, *Pipe, *Postfix, *Prefix, *Program, *Range, *Receive, *Return, *Send, *Set, *SetAttr, *Slice, *String, *Switch, *Ternary, *Var)
//@ ensures[C04.isexpr] result == (implements(n, Expression) && !(typeof(n) == *Func && n.(*Func).name != nil))

// ---- accessors with loops (assumed read-only) -----------------------------------------------------------

//@ func (*MultiVar).Value
//@ trusted
//@ modifies nothing
//@ ensures result1 == s.value

// ---- C05: map literals are enumerated in source order -------------------------------------------------------
// sort.SliceStable takes its slice as interface{} and a comparison callback: outside the subset. Assumed:
// the result holds each key of the literal exactly once.
//@ func (*Map).SortedKeys
//@ trusted
//@ modifies nothing
//@ ensures len(result) == len(m.items) && fresh(result) && forall(j, 0, len(result), result[j] != nil && haskey(m.items, result[j]))

// Dispositions of the map-range loops of this package: (*Map).SortedKeys#1 feeds a slice that is sorted by
// source position (a total order on the keys of one literal) before it is used.
//@ scan[C05.maploops.ast] C05 maprange ast: (*Map).SortedKeys#1
