//go:build verif

package ast

// Contracts for the AST package (used by the compiler's stack-height proof, C04).

// ---- pure interface methods (every implementation only reads the tree) -------------------------------

//@ func (Node).String
//@ trusted
//@ modifies nothing

//@ func (Node).Literal
//@ trusted
//@ modifies nothing

// IsExpression: characterised over the real method bodies by the harness verifIsExpression below.
//@ func (Node).IsExpression
//@ trusted
//@ modifies nothing
//@ ensures result == (implements(self, Expression) && !(typeof(self) == *Func && self.(*Func).name != nil))

func verifIsExpression(n Node) bool { return n.IsExpression() }

//@ func verifIsExpression
//@ props C04
//@ dispatch *Assign *Block *Bool *Call *Case *Const *Control *Defer *Float *For *ForIn *FromImport *Func *GetAttr *Go *Ident *If *Import *In *Index *Infix *Int *List *Map *MultiVar *Nil *NotIn *ObjectCall *Pipe *Postfix *Prefix *Program *Range *Receive *Return *Send *Set *SetAttr *Slice *String *Switch *Ternary *Var
//@ requires n != nil && ref(n) != nil
//@ requires oneof(typeof(n), *Assign, *Block, *Bool, *Call, *Case, *Const, *Control, *Defer, *Float, *For, *ForIn, *FromImport, *Func, *GetAttr, *Go, *Ident, *If, *Import, *In, *Index, *Infix, *Int, *List, *Map, *MultiVar, *Nil, *NotIn, *ObjectCall, *Pipe, *Postfix, *Prefix, *Program, *Range, *Receive, *Return, *Send, *Set, *SetAttr, *Slice, *String, *Switch, *Ternary, *Var)
//@ ensures[C04.isexpr] result == (implements(n, Expression) && !(typeof(n) == *Func && n.(*Func).name != nil))

// ---- accessors with loops (assumed read-only) -----------------------------------------------------------

//@ func (*MultiVar).Value
//@ trusted
//@ modifies nothing
//@ ensures result1 == s.value
