//go:build verif

package op

// Contracts for package op: the operand-count table (used by the compiler's emit).

//@ spec isop(o) = o == Nop || o == Halt || o == Call || o == ReturnValue || o == Defer || o == Go || o == JumpBackward || o == JumpForward || o == PopJumpForwardIfFalse || o == PopJumpForwardIfTrue || o == LoadAttr || o == LoadFast || o == LoadFree || o == LoadGlobal || o == LoadConst || o == StoreAttr || o == StoreFast || o == StoreFree || o == StoreGlobal || o == BinaryOp || o == CompareOp || o == UnaryNegative || o == UnaryNot || o == BuildList || o == BuildMap || o == BuildSet || o == BuildString || o == BinarySubscr || o == StoreSubscr || o == ContainsOp || o == Length || o == Slice || o == Unpack || o == Swap || o == Copy || o == PopTop || o == Nil || o == False || o == True || o == ForIter || o == GetIter || o == Range || o == FromImport || o == Import || o == Receive || o == Send || o == LoadClosure || o == MakeCell || o == Partial
//@ spec opcountT(o) = ite(o == ForIter || o == FromImport || o == LoadClosure || o == MakeCell, 2, ite(o == BinarySubscr || o == Defer || o == False || o == GetIter || o == Go || o == Halt || o == Import || o == Length || o == Nil || o == Nop || o == PopTop || o == Range || o == Receive || o == ReturnValue || o == Send || o == Slice || o == StoreSubscr || o == True || o == UnaryNegative || o == UnaryNot, 0, 1))

// The operand-count table filled by the package initialiser (init-only).
//@ axiom opinfoOK: len(infos) == 256 && forall(o, 0, 256, isop(o) ==> infos[o].OperandCount == opcountT(o))

//@ func GetInfo
//@ props C04 C01
//@ uses opinfoOK
//@ requires isop(op)
//@ modifies nothing
//@ ensures[C04.opinfo] result.OperandCount == opcountT(op)
