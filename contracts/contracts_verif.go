//go:build verif

package risor

// C05: map iteration in the configuration layer.

//@ func (*Config).CombinedGlobals
//@ props C05
//@ commute 1

//@ func (*Config).Globals
//@ props C05
//@ commute 1

//@ func (*Config).applyDefaultGlobals
//@ props C05
//@ commute 1

// GlobalNames: the result is the sorted duplicate-free enumeration of the key set of cfg.globals, i.e. a
// function of the key set only.
//@ func (*Config).GlobalNames
//@ props C05
//@ requires cfg != nil
//@ havoc (*Config).init
//@ invariant 1: len(names) == iter && (cap(names) == 0 || fresh(names)) && forall(j, 0, len(names), haskey(cfg.globals, names[j]) && seen(names[j])) && forall(i, 0, len(names), forall(j, i + 1, len(names), names[i] != names[j]))
//@ ensures[C05.globalnames.sorted] forall(i, 0, len(result), forall(j, i, len(result), result[i] <= result[j]))
//@ ensures[C05.globalnames.members] forall(j, 0, len(result), haskey(cfg.globals, result[j]))
//@ ensures[C05.globalnames.distinct] forall(i, 0, len(result), forall(j, i + 1, len(result), result[i] != result[j]))
//@ ensures[C05.globalnames.all] len(result) == len(cfg.globals)

//@ func DefaultGlobals
//@ props C05
//@ commute 1
//@ commute 2

// Dispositions of the map-range loops of the root package: CombinedGlobals#1 Globals#1 applyDefaultGlobals#1
// DefaultGlobals#1 DefaultGlobals#2 commute-proved; GlobalNames#1 and VMOpts#1 append to a slice that is sorted
// (sort.Strings) before use; applyOverrides#1 collects the names and sorts them before applying (KF-27 fixed);
// applyDenylist#1 calls into module objects: final cfg.globals is order independent, the mutation of a
// host-retained module that is itself denied is not (undecided, not claimed); WithGlobals$1#1 copies entries key by key.
//@ scan[C05.maploops.root] C05 maprange github.com/risor-io/risor: (*Config).CombinedGlobals#1 (*Config).Globals#1 (*Config).applyDefaultGlobals#1 DefaultGlobals#1 DefaultGlobals#2 (*Config).GlobalNames#1 (*Config).VMOpts#1 (*Config).applyDenylist#1 (*Config).applyOverrides#1 WithGlobals$WithGlobals$1#1
