//go:build verif

package builtins

//@ scan[C12.realos.builtins] C12 extcalls os.*,os/exec.*,os/user.*,io/ioutil.*,path/filepath.Abs,path/filepath.Glob,path/filepath.Walk,path/filepath.WalkDir,path/filepath.EvalSymlinks,syscall.*,-os.Err*,-os.init,-syscall.init,-os/exec.init,-os/user.init:

//@ scan[C12.freshctx.builtins] C12 extcalls context.Background,context.TODO:
