//go:build verif

package builtins

//@ scan[C12.realos.builtins] C12 extcalls os.*,os/exec.*,os/user.*,io/ioutil.*,path/filepath.Abs,path/filepath.Glob,path/filepath.Walk,path/filepath.WalkDir,path/filepath.EvalSymlinks,syscall.*,-os.Err*,-os.init,-syscall.init,-os/exec.init,-os/user.init:

//@ scan[C12.freshctx.builtins] C12 extcalls context.Background,context.TODO:

// codecs: guarded by mutex (guard obligations below).
//@ scan[C09.globals.builtins] C09 pkgglobals github.com/risor-io/risor/builtins: codecs<-RegisterCodec

// The codec registry is read and written only under its mutex.
//@ guarded codecs &mutex

//@ func RegisterCodec
//@ props C09
//@ requires !ghost("lock.w", bool, &mutex) && !ghost("lock.r", bool, &mutex)
//@ ensures[C09.released] !ghost("lock.w", bool, &mutex)

//@ func GetCodec
//@ props C09
//@ requires !ghost("lock.w", bool, &mutex) && !ghost("lock.r", bool, &mutex)
//@ ensures[C09.released] !ghost("lock.r", bool, &mutex)

//@ scan[C09.codecs.users] C09 extcalls github.com/risor-io/risor/builtins.codecs: RegisterCodec GetCodec init
