//go:build verif

package importer

//@ scan[C09.globals.importer] C09 pkgglobals github.com/risor-io/risor/importer:

// The local importer's code cache is shared by every VM that uses the importer: accessed only under its mutex.
//@ guardedfield LocalImporter.codeCache mutex

//@ func (*LocalImporter).Import
//@ props C09
//@ requires i != nil
//@ requires[C09.unlocked] !ghost("lock.w", bool, &i.mutex)
//@ havoc parseAndCompile readFileWithExtensions NewModule
//@ modcomps H_ E_ M G_ C_
//@ modifies ghost("lock.w", bool, &i.mutex)
//@ assumeframe
//@ ensures[C09.released] !ghost("lock.w", bool, &i.mutex)

//@ scan[C09.importer.cache.users] C09 fieldwriters LocalImporter.codeCache: NewLocalImporter Import

// Importers do not touch the VM's mutexes (assumed for every implementation).
//@ func (Importer).Import
//@ trusted
//@ modcomps H_ E_ M G_ C_
