//go:build verif

package importer

//@ scan[C09.globals.importer] C09 pkgglobals github.com/risor-io/risor/importer:

// The local importer's code cache is shared by every VM that uses the importer: accessed only under its mutex.
//@ guardedfield LocalImporter.codeCache mutex

//@ func (*LocalImporter).Import
//@ props C09
//@ requires i != nil
//@ requires[C09.unlocked] !ghost("lock.w", bool, &i.mutex)
//@ havoc parseAndCompile readFileWithExtensions NewModule
//@ modcomps H_ E_ M G_ C_
//@ modifies ghost("lock.w", bool, &i.mutex)
//@ assumeframe
//@ ensures[C09.released] !ghost("lock.w", bool, &i.mutex)

//@ scan[C09.importer.cache.users] C09 fieldwriters LocalImporter.codeCache: NewLocalImporter Import

// Importers do not touch the VM's mutexes or registers (assumed for every implementation).
//@ func (Importer).Import
//@ trusted
//@ modcomps H_compiler_ H_object_ H_importer_ H_ast_ H_parser_ H_lexer_ E_ M G_ C_

// ---- C14: which file an import reads ----------------------------------------------------------------------------
// The only file names tried are Join(dir, name+ext) for the configured extensions, in order; the first that can be
// read wins. With a validated name (parser: identifiers separated by '/', so no "..", not absolute) Join keeps the
// result under dir (assumed property of filepath.Join, as in C13).
//@ external os.ReadFile
//@ modifies nothing

//@ func readFileWithExtensions
//@ props C14
//@ modifies nothing
//@ invariant 1: true
//@ ensures[C14.file.name] result2 ==> exists(k, 0, len(extensions), result1 == uf("join2", string, dir, name + extensions[k]))
//@ ensures[C14.file.none] !result2 ==> result0 == "" && result1 == ""
