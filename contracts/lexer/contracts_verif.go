//go:build verif

package lexer

// Contracts for the lexer (C20 diagnostics half, C03 no-panic), checked by /verif/govc.

//@ spec clen(l) = len(l.characters)
//@ spec Inv(l) = l != nil && 0 - 1 <= l.position && l.position <= clen(l) + 1 && l.nextPosition == l.position + 1 && 0 <= l.lineStart && (l.position >= 0 ==> l.lineStart <= l.position) && (l.position < 0 ==> l.lineStart == 0) && l.column == l.position - l.lineStart && l.line >= 0 && (0 <= l.position && l.position < clen(l) ==> l.ch == l.characters[l.position]) && (l.position >= clen(l) ==> l.ch == 0)
//@ spec posOK(l, p) = 0 <= p.Char && p.Char <= clen(l) + 1 && p.Line >= 0 && p.Column == p.Char - p.LineStart && 0 <= p.LineStart && p.LineStart <= p.Char
//@ spec lexframe(l) = l.characters == old(l.characters) && l.file == old(l.file)

//@ func (*Lexer).readChar
//@ props C20 C03
//@ safety
//@ requires Inv(l)
//@ modifies l.position, l.nextPosition, l.ch, l.line, l.lineStart, l.column
//@ ensures[C20.lex.inv] Inv(l) && lexframe(l)
//@ ensures[C20.lex.step] l.position == ite(old(l.position) > clen(l), old(l.position), old(l.position) + 1) && l.line >= old(l.line)
//@ ensures[C20.lex.tokstart] l.tokenStartPosition == old(l.tokenStartPosition) && l.prevToken == old(l.prevToken)

//@ func (*Lexer).peekChar
//@ props C20 C03
//@ safety
//@ requires Inv(l)
//@ modifies nothing
//@ ensures[C20.lex.peek] result == ite(l.nextPosition >= clen(l), 0, l.characters[l.nextPosition])

//@ func (*Lexer).Position
//@ props C20
//@ requires Inv(l)
//@ modifies nothing
//@ ensures[C20.lex.pos] result.Char == l.position && result.Line == l.line && result.Column == l.column && result.LineStart == l.lineStart && result.Value == l.ch && result.File == l.file

//@ func (*Lexer).newToken
//@ props C20
//@ requires Inv(l)
//@ modifies nothing
//@ ensures[C20.lex.newtoken] result.Type == typ && result.Literal == literal && result.StartPosition == l.tokenStartPosition && result.EndPosition.Char == l.position && result.EndPosition.Line == l.line && result.EndPosition.Column == l.column && result.EndPosition.LineStart == l.lineStart

//@ func (*Lexer).skipTabsAndSpaces
//@ props C20 C03
//@ safety
//@ requires Inv(l) && l.position >= 0
//@ modifies l.position, l.nextPosition, l.ch, l.line, l.lineStart, l.column
//@ invariant 1: Inv(l) && lexframe(l) && l.position >= old(l.position) && l.tokenStartPosition == old(l.tokenStartPosition) && l.prevToken == old(l.prevToken) && forall(j, old(l.position), l.position, j < clen(l) && (l.characters[j] == ' ' || l.characters[j] == '\t'))
//@ ensures[C20.lex.inv] Inv(l) && lexframe(l) && l.position >= old(l.position)
//@ ensures[C20.lex.skip] !(l.ch == ' ' || l.ch == '\t')
//@ ensures[C20.lex.skip.only] forall(j, old(l.position), l.position, j < clen(l) && (l.characters[j] == ' ' || l.characters[j] == '\t'))

//@ func (*Lexer).skipComment
//@ props C20 C03
//@ safety
//@ requires Inv(l) && l.position >= 0
//@ modifies l.position, l.nextPosition, l.ch, l.line, l.lineStart, l.column
//@ invariant 1: Inv(l) && lexframe(l) && l.position >= old(l.position)
//@ ensures[C20.lex.inv] Inv(l) && lexframe(l) && l.position >= old(l.position)

//@ spec isterm(l, i) = i + 1 < clen(l) && l.characters[i] == '*' && l.characters[i+1] == '/'
//@ spec noterm(l, a, b) = forall(i, a, b, !isterm(l, i))

// A block comment ends at the first "*/" after its opening "/*": nothing that follows the first terminator is
// swallowed (only trailing blanks are skipped). The opening's own '*' may or may not count (i starts at s+2).
//@ func (*Lexer).skipMultiLineComment
//@ props C20 C03
//@ safety
//@ requires Inv(l) && l.position >= 0
//@ modifies l.position, l.nextPosition, l.ch, l.line, l.lineStart, l.column
//@ let s = old(l.position)
//@ invariant 1: Inv(l) && lexframe(l) && l.position >= s && (!found ==> noterm(l, s + 2, l.position)) && (found ==> noterm(l, s + 2, l.position - 2) && (l.position - 1 >= s + 2 && l.position - 1 < clen(l) ==> l.characters[l.position - 1] != '*'))
//@ ensures[C20.lex.inv] Inv(l) && lexframe(l) && l.position >= old(l.position)
//@ ensures[C20.cmt.first] forall(i, s + 2, l.position - 1, isterm(l, i) ==> forall(j, i + 2, l.position, l.characters[j] == ' ' || l.characters[j] == '\t'))

//@ func (*Lexer).GetLineText
//@ props C20 C03
//@ safety
//@ requires l != nil
//@ requires[C20.linetext.pos] 0 <= t.StartPosition.Char && t.StartPosition.Char <= clen(l) + 1 && t.StartPosition.Line >= 0
//@ requires[C20.linetext.eof] (t.Type != "EOF" ==> t.StartPosition.Char <= clen(l)) && (t.Type == "EOF" && clen(l) > 0 ==> t.StartPosition.Char >= 1)
//@ modifies nothing
//@ let c0 = t.StartPosition.Char - ite(t.Type == "EOF", 1, 0)
//@ invariant 1: 0 <= start && start <= c0 && c0 <= clen(l)
//@ invariant 2: 0 <= start && start <= c0 && c0 <= end && end <= clen(l)
//@ ensures[C20.linetext] true

//@ spec lexstep(l) = Inv(l) && lexframe(l) && l.position >= old(l.position) && l.tokenStartPosition == old(l.tokenStartPosition) && l.prevToken == old(l.prevToken)
//@ spec LEXMOD() = true

//@ func (*Lexer).readIdentifier
//@ props C20 C03
//@ safety
//@ requires Inv(l)
//@ modifies l.position, l.nextPosition, l.ch, l.line, l.lineStart, l.column
//@ invariant 1: lexstep(l) && (fresh(runes) || cap(runes) == 0)
//@ ensures[C20.lex.inv] lexstep(l)

//@ func (*Lexer).readNumber
//@ props C20 C03
//@ safety
//@ requires Inv(l)
//@ modifies l.position, l.nextPosition, l.ch, l.line, l.lineStart, l.column
//@ invariant 1: lexstep(l)
//@ ensures[C20.lex.inv] lexstep(l)

//@ func (*Lexer).readDecimal
//@ props C20 C03
//@ safety
//@ requires Inv(l)
//@ modifies l.position, l.nextPosition, l.ch, l.line, l.lineStart, l.column
//@ ensures[C20.lex.inv] lexstep(l)
//@ ensures[C20.lex.tok] result1 == nil ==> result0.StartPosition == l.tokenStartPosition && result0.EndPosition.Char == l.position && (result0.Type == "INT" || result0.Type == "FLOAT")

//@ func (*Lexer).readEscapeSequence
//@ props C20 C03
//@ safety
//@ requires Inv(l) && count >= 0 && 0 <= base && base <= 16
//@ modifies l.position, l.nextPosition, l.ch, l.line, l.lineStart, l.column
//@ invariant 1: lexstep(l) && (fresh(out) || cap(out) == 0)
//@ ensures[C20.lex.inv] lexstep(l)

//@ func (*Lexer).readString
//@ props C20 C03
//@ safety
//@ requires Inv(l)
//@ modifies l.position, l.nextPosition, l.ch, l.line, l.lineStart, l.column
//@ invariant 1: lexstep(l)
//@ ensures[C20.lex.inv] lexstep(l)

//@ func (*Lexer).readBacktick
//@ props C20 C03
//@ safety
//@ requires Inv(l)
//@ modifies l.position, l.nextPosition, l.ch, l.line, l.lineStart, l.column
//@ invariant 1: lexstep(l) && position == old(l.position) + 1
//@ ensures[C20.lex.inv] lexstep(l)

// (white space and any number of comments are skipped in loop 1 - KF-57 fixed: Next used to call itself once per
// comment, so a long run of comments exhausted the Go stack)
//@ func (*Lexer).Next
//@ props C20 C03
//@ safety
//@ requires Inv(l) && l.position >= 0
//@ invariant 1: Inv(l) && lexframe(l) && l.position >= old(l.position) && l.position >= 0
//@ modifies l.position, l.nextPosition, l.ch, l.line, l.lineStart, l.column, l.tokenStartPosition, l.prevToken
//@ ensures[C20.lex.inv] Inv(l) && lexframe(l) && l.position >= old(l.position)
//@ assume[src.nul] clen(l) > 0 ==> l.characters[0] != 0 && (l.prevToken.Type == "EOF" ==> l.position >= 1)
//@ ensures[C20.tok.pos] posOK(l, result0.StartPosition) && result0.StartPosition.Char <= result0.EndPosition.Char && result0.EndPosition.Char <= clen(l) + 1
//@ ensures[C20.tok.linetext] (result0.Type != "EOF" ==> result0.StartPosition.Char <= clen(l)) && (result0.Type == "EOF" && clen(l) > 0 ==> result0.StartPosition.Char >= 1)
//@ ensures[C20.tok.eof] result1 == nil && result0.Type != "EOF" ==> result0.StartPosition.Char < clen(l)
//@ ensures[C20.cmt] result1 == nil && result0.Type == "/" && 0 <= result0.EndPosition.Char && result0.EndPosition.Char + 1 < clen(l) ==> l.characters[result0.EndPosition.Char + 1] != '*' && l.characters[result0.EndPosition.Char + 1] != '/'

//@ scan[C09.globals.lexer] C09 pkgglobals github.com/risor-io/risor/lexer:
