//go:build verif

package errz

// typeErrorsAreFatal: a process-wide host switch (SetTypeErrorsAreFatal), read when a type error is created.
// Not synchronised: a host that flips it while evaluations run races with them (host-side configuration, not
// reachable from scripts) - recorded, not claimed race free.
//@ scan[C09.globals.errz] C09 pkgglobals github.com/risor-io/risor/errz: typeErrorsAreFatal<-SetTypeErrorsAreFatal
