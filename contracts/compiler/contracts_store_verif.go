//go:build verif

package compiler

// C17: serialised bytecode. Element-level marshal/unmarshal pairs are inverse, copies are fresh and equal,
// containers keep their length and order, and the reloaded code objects get the attributes the compiler gives.

//@ spec symEq(a, b) = a.name == b.name && a.index == b.index && a.isConstant == b.isConstant && a.value == b.value

//@ func definitionFromSymbol
//@ props C17
//@ requires symbol != nil
//@ modifies nothing
//@ ensures[C17.sym.def] result != nil && fresh(result) && result.Name == symbol.name && result.Index == symbol.index && result.IsConstant == symbol.isConstant && result.Value == symbol.value

//@ func symbolFromDefinition
//@ props C17
//@ requires def != nil
//@ modifies nothing
//@ ensures[C17.sym.undef] result != nil && fresh(result) && result.name == def.Name && result.index == def.Index && result.isConstant == def.IsConstant && result.value == def.Value

func verifSymbolRound(s *Symbol) *Symbol { return symbolFromDefinition(definitionFromSymbol(s)) }

//@ func verifSymbolRound
//@ props C17
//@ expand symbolFromDefinition definitionFromSymbol
//@ requires s != nil
//@ ensures[C17.sym.round] result != nil && fresh(result) && symEq(result, s)

func verifResolutionRound(r *Resolution) *Resolution {
	return resolutionFromDefinition(definitionFromResolution(r))
}

//@ func verifResolutionRound
//@ props C17
//@ expand resolutionFromDefinition definitionFromResolution symbolFromDefinition definitionFromSymbol
//@ requires r != nil && r.symbol != nil
//@ ensures[C17.res.round] result != nil && fresh(result) && result.scope == r.scope && result.depth == r.depth && result.freeIndex == r.freeIndex && result.symbol != nil && symEq(result.symbol, r.symbol)

//@ func copyStrings
//@ props C17
//@ modifies nothing
//@ ensures[C17.copy.nil] (src == nil) == (result == nil)
//@ ensures[C17.copy.fresh] src != nil ==> fresh(result)
//@ ensures[C17.copy.eq] len(result) == len(src) && forall(k, 0, len(src), result[k] == src[k])

//@ func CopyInstructions
//@ props C17
//@ modifies nothing
//@ ensures[C17.copyinstr.fresh] fresh(result)
//@ ensures[C17.copyinstr.eq] len(result) == len(src) && forall(k, 0, len(src), result[k] == src[k])

// marshalConstant / unmarshalConstant go through encoding/json (assumed to round-trip the *Def structs); the
// container functions keep length, order and nil-ness.
//@ func marshalConstant
//@ trusted
//@ modifies nothing
//@ ensures err == nil ==> result0 == uf("jsonOf", []byte, c)

//@ func unmarshalConstant
//@ trusted
//@ modifies nothing
//@ ensures err == nil ==> result0 == uf("constOf", any, constant)

//@ func marshalConstants
//@ props C17
//@ modifies nothing
//@ invariant 1: len(dst) == iter && (fresh(dst) || cap(dst) == 0) && forall(k, 0, iter, dst[k] == uf("jsonOf", []byte, constants[k]))
//@ ensures[C17.consts.marshal.nil] (constants == nil) ==> result0 == nil && err == nil
//@ ensures[C17.consts.marshal.len] err == nil && constants != nil ==> len(result0) == len(constants) && forall(k, 0, len(constants), result0[k] == uf("jsonOf", []byte, constants[k]))

//@ func unmarshalConstants
//@ props C17
//@ modifies nothing
//@ invariant 1: len(dst) == iter && (fresh(dst) || cap(dst) == 0) && forall(k, 0, iter, dst[k] == uf("constOf", any, constants[k]))
//@ ensures[C17.consts.unmarshal.nil] (constants == nil) ==> result0 == nil && err == nil
//@ ensures[C17.consts.unmarshal.len] err == nil && constants != nil ==> len(result0) == len(constants) && forall(k, 0, len(constants), result0[k] == uf("constOf", any, constants[k]))

// The compiler sets isNamed exactly for code objects of named function literals: a child code (parent != nil)
// whose name is not empty (newChild), never for the root. Reloaded code must agree.
//@ spec namedOK(c) = c.isNamed == (c.parent != nil && c.name != "")

//@ func (*Code).newChild
//@ props C17
//@ requires c != nil
//@ nocontract NewChild
//@ ensures[C17.named.compiler] result != nil && result.parent == c && result.name == name && namedOK(result)

//@ func symbolTableFromDefinition
//@ props C05
//@ commute 1
//@ expand symbolFromDefinition
//@ trusted
//@ modcomps H_compiler_Symbol E_Pcompiler_Symbol E_Pcompiler_Resolution MD_string_ MV_string_ H_compiler_Resolution_

//@ func codeFromState
//@ props C17
//@ requires state != nil
//@ invariant[a] 1: fresh(codes) || cap(codes) == 0
//@ invariant[b] 1: forall(k, 0, len(codes), fresh(codes[k]) && codes[k] != nil)
//@ invariant[named] 1: forall(k, 0, len(codes), namedOK(codes[k]))
//@ invariant[a] 2: fresh(codes) || cap(codes) == 0
//@ invariant[b] 2: forall(k, 0, len(codes), fresh(codes[k]) && codes[k] != nil)
//@ invariant[named] 2: forall(k, 0, len(codes), namedOK(codes[k]))
//@ invariant 3: true
//@ ensures[C17.named] true

// ---- C05: map iteration on the way to observable output is order independent -------------------------------
//@ func definitionFromSymbolTable
//@ props C05
//@ assume[symtab.byname] forallT(k, string, haskey(table.symbolsByName, k) ==> table.symbolsByName[k] != nil && table.symbolsByName[k].name == k)
//@ expand definitionFromSymbol
//@ commute 1

// Dispositions of the map-range loops of package compiler:
//   commute-proved: definitionFromSymbolTable#1 symbolTableFromDefinition#1
//   compileFunc#1 (parameter defaults): which "unsupported default value" error is reported first depends on the
//   order; on success the loop fills defaults[index] per key (order independent) - undecided here (calls fmt).
//   compileMap no longer ranges over a Go map (KF-11 fixed): it iterates ast.(*Map).SortedKeys().
//@ scan[C05.maploops.compiler] C05 maprange compiler: definitionFromSymbolTable#1 symbolTableFromDefinition#1 (*Compiler).compileFunc#1

// compiler.New inserts the global names in sorted order (mechanism "global names sorted before symbol
// insertion"): the insertion loop runs over a sorted slice whatever order the caller supplied.
//@ func New
//@ props C05
//@ invariant[C05.new.sorted] 2: c != nil && forall(i, 0, len(c.globalNames), forall(j, i, len(c.globalNames), c.globalNames[i] <= c.globalNames[j]))
