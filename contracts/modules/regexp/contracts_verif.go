//go:build verif

package regexp

// C19, module regexp: regexp.match(pattern, s) returns exactly what Go's regexp.MatchString(pattern, s) returns for
// the arguments in that order when it reports no error, and an error object when it does (an invalid pattern); a
// wrong number of arguments or a non-string argument is an error object; no panic.
// Assumed: regexp.MatchString is a pure function of its arguments.
//@ func Match
//@ props C19
//@ safety
//@ assume[args.wf] forall(k, 0, len(args), args[k] != nil && ref(args[k]) != nil)
//@ let pat = args[0].(*object.String).value
//@ let sub = args[1].(*object.String).value
//@ let strs = len(args) == 2 && typeof(args[0]) == *object.String && typeof(args[1]) == *object.String
//@ ensures[C19.regexp.match.arity] len(args) != 2 ==> typeof(result) == *object.Error
//@ ensures[C19.regexp.match.value] strs && uf("ext:regexp.MatchString.1", error, pat, sub) == nil ==> typeof(result) == *object.Bool && ref(result) != nil && result.(*object.Bool).value == uf("ext:regexp.MatchString", bool, pat, sub)
//@ ensures[C19.regexp.match.error] strs && uf("ext:regexp.MatchString.1", error, pat, sub) != nil ==> typeof(result) == *object.Error
