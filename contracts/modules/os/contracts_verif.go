//go:build verif

package os

//@ scan[C12.realos.os] C12 extcalls os.*,os/exec.*,os/user.*,io/ioutil.*,path/filepath.Abs,path/filepath.Glob,path/filepath.Walk,path/filepath.WalkDir,path/filepath.EvalSymlinks,syscall.*,-os.Err*,-os.init,-syscall.init,-os/exec.init,-os/user.init:

// Fresh contexts would lose the OS: none is created in this package.
//@ scan[C12.freshctx.os] C12 extcalls context.Background,context.TODO:

// GetOS: what every builtin of this module uses - the context's OS whenever the context carries one.
//@ func GetOS
//@ props C12
//@ requires ctx != nil
//@ ensures[C12.mod.os.getos] hasos(ctx) ==> any(result) == ctxos(ctx)
