//go:build verif

package json

// C19: json.marshal and the "json" codec agree. Both hand the SAME value - the script object itself, whose
// MarshalJSON method defines its JSON form - to encoding/json.Marshal (here and in builtins.encodeJSON), and both
// decode with encoding/json.Unmarshal into an interface{} followed by object.FromGoType. KF-48 fixed: the codec
// marshalled obj.Interface() instead (nil, byte slices, buffers, iterators differed).
// Assumed: encoding/json.Marshal is a function of its argument.
//@ func Marshal
//@ props C19
//@ assume[args.wf] forall(k, 0, len(args), args[k] != nil && ref(args[k]) != nil)
//@ callpre[C19.json.agree] Marshal: arg0 == any(args[0])
//@ callpre[C19.json.agree] MarshalIndent: arg0 == any(args[0])
//@ ensures[C19.json.marshal.arity] len(args) < 1 || len(args) > 2 ==> typeof(result) == *object.Error

// Decoding side of the agreement: module json and the json codec (builtins) decode with encoding/json.Unmarshal
// and nothing else of that package (a streaming Decoder accepts trailing data that Unmarshal rejects). Structural
// obligation: the only encoding/json functions called from this package are the four listed.
//@ scan[C19.json.functions] C19 extcalls encoding/json.*,-encoding/json.Unmarshal,-encoding/json.Marshal,-encoding/json.MarshalIndent,-encoding/json.Valid,-encoding/json.init:
