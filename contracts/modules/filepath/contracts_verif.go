//go:build verif

package filepath

//@ scan[C12.realos.filepath] C12 extcalls os.*,os/exec.*,os/user.*,io/ioutil.*,path/filepath.Abs,path/filepath.Glob,path/filepath.Walk,path/filepath.WalkDir,path/filepath.EvalSymlinks,syscall.*,-os.Err*,-os.init,-syscall.init,-os/exec.init,-os/user.init:

//@ scan[C12.freshctx.filepath] C12 extcalls context.Background,context.TODO:

//@ func GetOS
//@ props C12
//@ requires ctx != nil
//@ ensures[C12.mod.filepath.getos] hasos(ctx) ==> any(result) == ctxos(ctx)
