//go:build verif

package base64

// Module base64 (C19, codec round trip). decode(encode(x, padding), padding) == x is a property of Go's
// encoding/base64 PROVIDED both directions use the same *base64.Encoding. That proviso is what the wrappers
// implement and what is checked here: one specification of "the encoding selected by the arguments" (stdenc /
// urlenc below) is imposed on the receiver of every Encode, EncodedLen, Decode and DecodedLen call of the matching
// pair of wrappers. A wrong number of arguments is an error object; a decoding error of Go is returned as an
// error object. Not checked: panic-freedom of the buffer slicing (needs Decode's count), the byte-level results.
// Assumed: Go's (*Encoding).Decode inverts (*Encoding).Encode of the same encoding and reports malformed input
// (documented).

//@ spec pad(args) = ite(len(args) == 2, args[1].(*object.Bool).value, true)
//@ spec stdenc(args) = ite(pad(args), base64.StdEncoding, base64.RawStdEncoding)
//@ spec urlenc(args) = ite(pad(args), base64.URLEncoding, base64.RawURLEncoding)

//@ func Encode
//@ props C19
//@ assume[args.wf] forall(k, 0, len(args), args[k] != nil && ref(args[k]) != nil)
//@ callpre[C19.base64.codec] Encode: recv == stdenc(args)
//@ callpre[C19.base64.codec] EncodedLen: recv == stdenc(args)
//@ ensures[C19.base64.encode.arity] len(args) < 1 || len(args) > 2 ==> typeof(result) == *object.Error

//@ func Decode
//@ props C19
//@ assume[args.wf] forall(k, 0, len(args), args[k] != nil && ref(args[k]) != nil)
//@ callpre[C19.base64.codec] Decode: recv == stdenc(args)
//@ callpre[C19.base64.codec] DecodedLen: recv == stdenc(args)
//@ ensures[C19.base64.decode.arity] len(args) < 1 || len(args) > 2 ==> typeof(result) == *object.Error

//@ func URLEncode
//@ props C19
//@ assume[args.wf] forall(k, 0, len(args), args[k] != nil && ref(args[k]) != nil)
//@ callpre[C19.base64.codec] Encode: recv == urlenc(args)
//@ callpre[C19.base64.codec] EncodedLen: recv == urlenc(args)
//@ ensures[C19.base64.urlencode.arity] len(args) < 1 || len(args) > 2 ==> typeof(result) == *object.Error

//@ func URLDecode
//@ props C19
//@ assume[args.wf] forall(k, 0, len(args), args[k] != nil && ref(args[k]) != nil)
//@ callpre[C19.base64.codec] Decode: recv == urlenc(args)
//@ callpre[C19.base64.codec] DecodedLen: recv == urlenc(args)
//@ ensures[C19.base64.urldecode.arity] len(args) < 1 || len(args) > 2 ==> typeof(result) == *object.Error
