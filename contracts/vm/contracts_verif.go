//go:build verif

package vm

// Contracts for the virtual machine.

//@ func (*VirtualMachine).Clone
//@ props C05
//@ commute 1
//@ commute 2

//@ func (*VirtualMachine).applyOptions
//@ props C05
//@ commute 1

// Dispositions of the map-range loops of package vm: Clone#1 Clone#2 applyOptions#1 commute-proved;
// WithGlobals$1#1 copies entries key by key (closure, not under contract); newVM / basicBuiltins are test helpers
// (compiler.New sorts the global names before use).
//@ scan[C05.maploops.vm] C05 maprange vm: (*VirtualMachine).Clone#1 (*VirtualMachine).Clone#2 (*VirtualMachine).applyOptions#1 WithGlobals$WithGlobals$1#1 newVM#1 newVM#2 basicBuiltins#1 basicBuiltins#2
