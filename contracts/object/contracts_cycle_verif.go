//go:build verif

package object

// C03 (native stack exhaustion): lists and maps may contain themselves (l := []; l.append(l)). Every method that
// descends into the elements must carry an in-progress flag: it returns without descending when the flag is
// already set, sets it before the first descent and restores it when it returns. The recursion depth is then
// bounded by the number of containers reachable from the operand (each activation that descends has turned one
// more flag on), not by the length of a path through a cycle. Repaired defect KF-38: Equals, Compare, Interface
// and MarshalJSON had no flag and ran until the Go runtime killed the process.
//
// Per method the obligations are: at every descending call the flag of the receiver is set and was clear on entry
// (callpre ... guard), and the flag is restored on return (ensures ... restore). The descending calls themselves
// stay under their assumed interface contracts ((Object).Equals etc.: result a function of the operands, no net
// change of the heap - the restore obligations are what makes the latter true for the flags).
// Not covered: termination is argued from these obligations, it is not itself a checked obligation (the engine
// has no decreases clause across dynamic dispatch); sets hold only hashable values and cannot be cyclic.

//@ func (*List).Equals
//@ props C03
//@ requires ls != nil
//@ callpre[C03.cycle.guard] Equals: ls.compareActive && !old(ls.compareActive)
//@ ensures[C03.cycle.restore] ls.compareActive == old(ls.compareActive)

//@ func (*List).Compare
//@ props C03 C15
//@ requires ls != nil && other != nil && ref(other) != nil
//@ ensures[C15.cmp.range] result1 == nil ==> oneof(result0, -1, 0, 1)
//@ callpre[C03.cycle.guard] Compare: ls.compareActive && !old(ls.compareActive)
//@ ensures[C03.cycle.restore] ls.compareActive == old(ls.compareActive)

//@ func (*List).Interface
//@ props C03
//@ requires ls != nil
//@ callpre[C03.cycle.guard] Interface: ls.convertActive && !old(ls.convertActive)
//@ ensures[C03.cycle.restore] ls.convertActive == old(ls.convertActive)

//@ func (*List).MarshalJSON
//@ props C03
//@ requires ls != nil
//@ callpre[C03.cycle.guard] Marshal: ls.convertActive && !old(ls.convertActive)
//@ ensures[C03.cycle.restore] ls.convertActive == old(ls.convertActive)

//@ func (*Map).Equals
//@ props C03
//@ requires m != nil
//@ callpre[C03.cycle.guard] Equals: m.compareActive && !old(m.compareActive)
//@ ensures[C03.cycle.restore] m.compareActive == old(m.compareActive)

//@ func (*Map).Interface
//@ props C03
//@ requires m != nil
//@ callpre[C03.cycle.guard] Interface: m.convertActive && !old(m.convertActive)
//@ ensures[C03.cycle.restore] m.convertActive == old(m.convertActive)

//@ func (*Map).MarshalJSON
//@ props C03
//@ requires m != nil
//@ callpre[C03.cycle.guard] Marshal: m.convertActive && !old(m.convertActive)
//@ ensures[C03.cycle.restore] m.convertActive == old(m.convertActive)

// Assumed: converting a value to its Go counterpart leaves the object heap as it found it (the implementations
// read their fields; List and Map set their in-progress flag and restore it - checked above).
//@ func (Object).Interface
//@ trusted
//@ modifies nothing
