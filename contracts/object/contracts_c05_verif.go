//go:build verif

package object

// C05: Go-map iteration in package object is order independent (commutativity obligation per loop), or feeds
// a slice that is sorted by a total order before it is used.

//@ func (*Set).Union
//@ props C05
//@ commute 1
//@ commute 2

//@ func (*Set).Intersection
//@ props C05
//@ commute 1

//@ func (*Set).Difference
//@ props C05
//@ commute 1

//@ func NewBuiltinsModule
//@ props C05
//@ commute 1
//@ commute 2

// ---- sorted enumeration: the result is a function of the map's key set -------------------------------------
// sort.Strings: assumed contract (sorted, every element is an old element, distinctness preserved).
//@ external sort.Strings
//@ modifies elems(x)
//@ ensures forall(i, 0, len(x), forall(j, i, len(x), x[i] <= x[j]))
//@ ensures forall(j, 0, len(x), exists(i, 0, len(x), x[j] == old(x[i])))
//@ ensures old(forall(i, 0, len(x), forall(j, i + 1, len(x), x[i] != x[j]))) ==> forall(i, 0, len(x), forall(j, i + 1, len(x), x[i] != x[j]))

//@ func (*Map).SortedKeys
//@ props C05 C16
//@ requires m != nil
//@ modifies nothing
//@ invariant 1: len(keys) == iter && fresh(keys) && forall(j, 0, len(keys), mhas(m, keys[j]) && seen(keys[j])) && forall(i, 0, len(keys), forall(j, i + 1, len(keys), keys[i] != keys[j]))
//@ ensures[C05.sortedkeys.sorted] forall(i, 0, len(result), forall(j, i, len(result), result[i] <= result[j]))
//@ ensures[C05.sortedkeys.members] forall(j, 0, len(result), mhas(m, result[j]))
//@ ensures[C05.sortedkeys.distinct] forall(i, 0, len(result), forall(j, i + 1, len(result), result[i] != result[j]))
//@ ensures[C05.sortedkeys.all] len(result) == len(m.items)

// Dispositions of every Go-map range loop in this package (a new loop must be added here with a reason):
//   commute-proved: Map.Copy#1 Map.Update#1 Set.Union#1 Set.Union#2 Set.Intersection#1 Set.Difference#1 NewBuiltinsModule#1 NewBuiltinsModule#2
//   sorted-after (functional postcondition): Map.SortedKeys#1; sorted by the caller, not yet under contract: Set.SortedItems#1 Keys#1 Map.StringKeys#1
//   early exit with an order-independent boolean result, not yet under contract: Map.Equals#1 Set.Equals#1
//   calls into code without contracts (undecided): Map.Interface#1 AsObjects#1 FromGoType#1 MapConverter.To#1 StructConverter.To#1 GoType.attrMap#1 newGoType#1..#3
//@ scan[C05.maploops.object] C05 maprange object: (*Map).Copy#1 (*Map).Update#1 (*Set).Union#1 (*Set).Union#2 (*Set).Intersection#1 (*Set).Difference#1 NewBuiltinsModule#1 NewBuiltinsModule#2 (*Map).SortedKeys#1 (*Set).SortedItems#1 Keys#1 (*Map).StringKeys#1 (*Map).Equals#1 (*Set).Equals#1 (*Map).Interface#1 AsObjects#1 FromGoType#1 (*MapConverter).To#1 (*StructConverter).To#1 (*GoType).attrMap#1 newGoType#1 newGoType#2 newGoType#3
