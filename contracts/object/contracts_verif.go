//go:build verif

package object

// Contracts for package object (checked by /verif/govc). Comment-only except for proof harnesses.

//@ spec inrange(i, n) = -n <= i && i < n
//@ spec norm(i, n) = ite(i >= 0, i, i + n)

//@ func ResolveIndex
//@ props C16
//@ mode bv
//@ requires size >= 0
//@ ensures[C16.idx.ok]  err == nil ==> 0 <= result && result < size
//@ ensures[C16.idx.val] err == nil ==> result == norm(idx, size)
//@ ensures[C16.idx.err] err != nil <==> !inrange(idx, size)
