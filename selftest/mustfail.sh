#!/bin/sh
# Must-fail corpus (developer self-test, not a registered check): every seeded change in /verif/seeded/<id>/ and the
# revert of every "fix:" commit recorded in known_findings.json must make the check of its property report a
# violation; the unchanged tree must not. Works on a scratch copy of /repo's HEAD outside /repo and /verif, which is
# removed afterwards. Usage: sh /verif/selftest/mustfail.sh [ids...]
set -u
export GOFLAGS=-mod=mod GOPROXY=off GOSUMDB=off GOTOOLCHAIN=local GOWORK=off
[ -x /verif/bin/govc ] || sh /verif/setup.sh >/dev/null 2>&1
WT=$(mktemp -d /var/tmp/govc-mustfail-XXXXXX)
trap 'rm -rf "$WT"' EXIT
git -C /repo archive HEAD | tar -x -C "$WT"
cp /repo/go.work /repo/go.work.sum "$WT"/ 2>/dev/null
fail=0
run() { # label prop
  out=$(/verif/bin/govc check -repo "$WT" -prop "$2" -no-evidence 2>&1 | tail -1)
  case "$out" in
    *" 0 violations"*) echo "MISSED  $1 ($2): $out"; fail=1 ;;
    *violations*) echo "caught  $1 ($2): $out" ;;
    *) echo "ERROR   $1 ($2): $out"; fail=1 ;;
  esac
}
ids=${*:-$(ls /verif/seeded)}
for id in $ids; do
  (cd "$WT" && patch -p1 -s < /verif/seeded/$id/patch.diff) || { echo "ERROR   seed $id does not apply"; fail=1; continue; }
  run "seed $id" "$(echo $id | cut -c1-3)"
  (cd "$WT" && patch -p1 -R -s < /verif/seeded/$id/patch.diff)
done
if [ $# -eq 0 ]; then
  python3 - <<'PY' > "$WT/.fixed"
import json
seen=set()
for f in json.load(open('/verif/known_findings.json'))['findings']:
    if f.get('status')=='fixed' and (f['commit'],f['property']) not in seen:
        seen.add((f['commit'],f['property'])); print(f['kf'],f['property'],f['commit'])
PY
  while read kf prop commit; do
    git -C /repo show "$commit" -- . ':(exclude)*_test.go' > "$WT/.fix.diff"
    (cd "$WT" && patch -p1 -R -s < .fix.diff) || { echo "ERROR   revert of $kf ($commit) does not apply"; fail=1; continue; }
    run "revert $kf $commit" "$prop"
    (cd "$WT" && patch -p1 -s < .fix.diff)
  done < "$WT/.fixed"
fi
exit $fail
