#!/bin/sh
# Must-fail corpus (developer self-test, not a registered check): every seeded change in /verif/seeded/<id>/ and the
# revert of every "fix:" commit recorded in known_findings.json must make the check of its property report a
# violation; the unchanged tree must not. Works on a scratch copy of /repo's HEAD outside /repo and /verif, which is
# removed afterwards. Usage: sh /verif/selftest/mustfail.sh [seed ids and/or KF-n ...]
set -u
export GOFLAGS=-mod=mod GOPROXY=off GOSUMDB=off GOTOOLCHAIN=local GOWORK=off
[ -x /verif/bin/govc ] || sh /verif/setup.sh >/dev/null 2>&1
WT0=$(mktemp -d /var/tmp/govc-mustfail-XXXXXX)
trap 'rm -rf "$WT0"' EXIT
# work on a snapshot of the contracts, claims, findings, seeds and the checker, so that /verif can be edited meanwhile
SNAP="$WT0/verif"
mkdir -p "$SNAP"
cp -r /verif/contracts /verif/claims /verif/seeded /verif/known_findings.json "$SNAP"/
cp /verif/bin/govc "$SNAP/govc"
export VERIF_ROOT="$SNAP"
# a scratch clone (so that fix commits can be reverted with a three-way merge), outside /repo and /verif
git clone -q /repo "$WT0/r" || exit 2
WT="$WT0/r"
cp /repo/go.work /repo/go.work.sum "$WT"/ 2>/dev/null
git -C "$WT" config user.email mustfail@example.invalid; git -C "$WT" config user.name mustfail
fail=0
run() { # label prop
  full=$("$SNAP/govc" check -repo "$WT" -prop "$2" -no-evidence 2>&1)
  out=$(echo "$full" | tail -1)
  first=$(echo "$full" | grep "^  obligation:" | head -2 | sed 's/^  obligation: *//; s#github.com/risor-io/risor/##' | tr '\n' ' ')
  case "$out" in
    *" 0 violations"*) echo "MISSED  $1 ($2): $out"; fail=1 ;;
    *violations*) echo "caught  $1 ($2): $out"; echo "        by: $first" ;;
    *) echo "ERROR   $1 ($2): $out"; fail=1 ;;
  esac
}
clean() { git -C "$WT" reset -q --hard HEAD; git -C "$WT" clean -q -fd -e go.work -e go.work.sum; }
seeds=""; kfs=""
for a in "$@"; do case "$a" in KF-*) kfs="$kfs $a" ;; *) seeds="$seeds $a" ;; esac; done
[ $# -eq 0 ] && seeds=$(ls "$SNAP"/seeded)
for id in $seeds; do
  git -C "$WT" apply "$SNAP"/seeded/$id/patch.diff 2>/dev/null || (cd "$WT" && patch -p1 -s < "$SNAP"/seeded/$id/patch.diff) || { echo "ERROR   seed $id does not apply"; fail=1; clean; continue; }
  run "seed $id" "$(echo $id | cut -c1-3)"
  clean
done
if [ $# -eq 0 ] || [ -n "$kfs" ]; then
  python3 - $kfs <<'PY' > "$WT0/fixed"
import json,sys
want=set(sys.argv[1:])
seen=set()
for f in json.load(open(__import__('os').environ['VERIF_ROOT']+'/known_findings.json'))['findings']:
    if f.get('status')=='fixed' and (f['commit'],f['property']) not in seen and (not want or f['kf'] in want):
        seen.add((f['commit'],f['property'])); print(f['kf'],f['property'],f['commit'])
PY
  while read kf prop commit; do
    if ! git -C "$WT" revert --no-commit "$commit" >/dev/null 2>&1; then
      git -C "$WT" revert --abort >/dev/null 2>&1; clean
      echo "ERROR   revert of $kf ($commit) conflicts with later commits"; fail=1; continue
    fi
    run "revert $kf $commit" "$prop"
    clean
  done < "$WT0/fixed"
fi
exit $fail
