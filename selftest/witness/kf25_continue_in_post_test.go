package risor

// Witness for KF-25 (C04): a `continue` inside the post clause of a three-part for loop is patched
// with a negative jump distance that wraps around as uint16; evaluation silently stops without
// producing the program's value and without an error.

import (
	"context"
	"testing"

	"github.com/risor-io/risor/object"
)

func TestVerifKF25(t *testing.T) {
	src := `
n := 0
for i := 0; i < 6; i = if i == 2 { continue; 1 } else { i + 1 } {
  n = n + 1
  if n > 50 { break }
}
n
`
	result, err := Eval(context.Background(), src)
	if err != nil {
		return // rejected with an error: acceptable
	}
	if _, ok := result.(*object.Int); !ok {
		t.Fatalf("evaluation finished without error but did not produce the program's value: got %T %v", result, result)
	}
}
