package risor

// Witness for KF-11 (C05): map literals were compiled (and printed) in Go map iteration order, so the same
// source compiled to different bytecode from run to run, and a literal with a duplicate key evaluated
// to different values.

import (
	"context"
	"testing"

	"github.com/risor-io/risor/compiler"
	"github.com/risor-io/risor/parser"
)

func TestVerifKF11(t *testing.T) {
	ctx := context.Background()
	src := `m := {"a": 1, "b": 2, "c": 3, "d": 4, "a": 5}; m["a"]`
	seen := map[string]bool{}
	vals := map[string]bool{}
	for i := 0; i < 60; i++ {
		prog, err := parser.Parse(ctx, src)
		if err != nil {
			t.Fatal(err)
		}
		code, err := compiler.Compile(prog)
		if err != nil {
			t.Fatal(err)
		}
		data, err := compiler.MarshalCode(code)
		if err != nil {
			t.Fatal(err)
		}
		seen[string(data)] = true
		v, err := Eval(ctx, src)
		if err != nil {
			t.Fatal(err)
		}
		vals[v.Inspect()] = true
	}
	if len(seen) != 1 {
		t.Errorf("compiling the same source 60 times gave %d different serialised bytecodes", len(seen))
	}
	if len(vals) != 1 {
		t.Errorf("evaluating the same source 60 times gave %d different results: %v", len(vals), vals)
	}
}
