package risor

import (
	"context"
	"strings"
	"testing"
)

// KF-81 (C04): no execution path underflows the stack. The parser accepts any node in an argument list; an assignment
// used as an argument (`f(x = 1)`) pushes nothing, so the call popped a value that was never pushed: the VM indexed its
// stack at -1 (recovered Go panic), inside a function it consumed the caller's operands instead.
func TestVerifKF81(t *testing.T) {
	for _, src := range []string{
		"x := 0; func f(a) { return a }; f(x = 1)",
		"x := 0; print(x = 1)",
		"x := 0; l := [1]; l.append(x = 1)",
		"x := 0; func f(a) { return a }; func g() { y := 5; return f(x = 1) }; g()",
	} {
		v, err := Eval(context.Background(), src)
		if err == nil || strings.Contains(err.Error(), "panic") || !strings.Contains(err.Error(), "not an expression") {
			t.Fatalf("%s: want a compile error, got %v, %v", src, v, err)
		}
	}
	if v, err := Eval(context.Background(), "func f(a, b) { return a + b() }; f(1, func() { return 2 })"); err != nil || v.Inspect() != "3" {
		t.Fatalf("ordinary arguments: %v, %v", v, err)
	}
}
