package risor

import (
	"context"
	"testing"
)

type kf56H struct{}

func (h *kf56H) Sum(base int, n ...int) int {
	for _, x := range n {
		base += x
	}
	return base
}

// KF-56 (C08): a variadic Go method receives the list given for its variadic parameter as that parameter's elements
// (Proxy.call converted the list to a slice and then used Call instead of CallSlice: "cannot use []int as type int").
func TestVerifKF56(t *testing.T) {
	for src, want := range map[string]string{`h.Sum(1, [2, 3])`: "6", `h.Sum(1)`: "1", `h.Sum(1, [])`: "1"} {
		v, err := Eval(context.Background(), src, WithGlobals(map[string]any{"h": &kf56H{}}))
		if err != nil {
			t.Errorf("%s: %v", src, err)
		} else if v.Inspect() != want {
			t.Errorf("%s = %s, want %s", src, v.Inspect(), want)
		}
	}
}
