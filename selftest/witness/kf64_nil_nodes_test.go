package risor

import (
	"context"
	"testing"
)

// KF-64 (C03): a newline or the end of the input where an expression is required must be a parse error. The parser
// returned success with a nil child in the tree (index, case expression, map value, else-if), and the compiler
// dereferenced it: risor.Eval panicked in the host.
func TestVerifKF64(t *testing.T) {
	for _, src := range []string{
		"if true {} else if", "if x > 1 { 2 } else if\n", "switch 1 { case \n 1: }", "switch 1 { case 1, \n2: 3 }",
		"[1][\n0]", "x := [1,2][\n1]", "{\"a\":\n 1}", "{\"a\": 1, \"b\":\n 2}", "x.y[\n0] = 1", "[1, 2][0:\n1]",
	} {
		func() {
			defer func() {
				if r := recover(); r != nil {
					t.Errorf("Eval(%q) panicked in the host: %v", src, r)
				}
			}()
			if _, err := Eval(context.Background(), src); err == nil {
				t.Errorf("Eval(%q): expected a parse error", src)
			}
		}()
	}
}
