package localfs

// Witness for KF-19 (C13): the rooted filesystem's MkdirTemp with an empty dir creates the
// directory in the host's default temp directory, outside the base.

import (
	"context"
	"os"
	"path/filepath"
	"strings"
	"testing"
)

func TestVerifKF19(t *testing.T) {
	base := filepath.Join(t.TempDir(), "root")
	if err := os.Mkdir(base, 0o755); err != nil {
		t.Fatal(err)
	}
	fs, err := New(context.Background(), WithBase(base))
	if err != nil {
		t.Fatal(err)
	}
	dir, err := fs.MkdirTemp("", "verif-kf19-")
	if err != nil {
		t.Fatal(err)
	}
	defer os.RemoveAll(dir)
	if !strings.HasPrefix(dir, base+string(filepath.Separator)) {
		t.Fatalf("rooted filesystem with base %q created %q outside its base", base, dir)
	}
}
