package object

// Witness for KF-32 (C09): (*GoType).GetConverter computes the converter of a method parameter type lazily, on
// the first call of the method from a script (Proxy.call), by calling getTypeConverter without holding
// goTypeMutex. getTypeConverter reads the shared typeConverters map and, for slice/struct/pointer parameter
// types, creates converters and Go types, writing typeConverters and goTypeRegistry. Two evaluations on separate
// VMs (here: two goroutines calling methods of two unrelated proxies) race on these maps.
// Run with -race: the detector reports the unsynchronised map accesses.

import (
	"context"
	"sync"
	"testing"
)

type verifKF32ElemA struct{ N int }
type verifKF32ElemB struct{ N int }
type verifKF32SvcA struct{}
type verifKF32SvcB struct{}

func (s *verifKF32SvcA) Take(xs []verifKF32ElemA, m map[string]verifKF32ElemA) int { return len(xs) }
func (s *verifKF32SvcB) Take(xs []verifKF32ElemB, m map[string]verifKF32ElemB) int { return len(xs) }

func TestVerifKF32(t *testing.T) {
	pa, err := NewProxy(&verifKF32SvcA{})
	if err != nil {
		t.Fatal(err)
	}
	pb, err := NewProxy(&verifKF32SvcB{})
	if err != nil {
		t.Fatal(err)
	}
	ma, _ := pa.GetAttr("Take")
	mb, _ := pb.GetAttr("Take")
	var wg sync.WaitGroup
	start := make(chan struct{})
	for _, m := range []Object{ma, mb} {
		wg.Add(1)
		go func(m Object) {
			defer wg.Done()
			<-start
			res := m.(*Builtin).Call(context.Background(), NewList(nil), NewMap(nil))
			if res.Type() == ERROR {
				t.Errorf("call failed: %s", res.Inspect())
			}
		}(m)
	}
	close(start)
	wg.Wait()
}
