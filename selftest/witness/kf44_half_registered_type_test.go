package risor

import (
	"context"
	"testing"
)

type kf44S struct {
	N  int
	Fn func(int) int
}

// KF-44 (C08): a Go type that cannot be represented (a struct with a func field) must be rejected every time it is
// offered. The first failed registration used to leave the half-built type in the registry, so the second Eval
// accepted the value as a proxy without (all of) its fields.
func TestVerifKF44(t *testing.T) {
	for i := 0; i < 2; i++ {
		func() {
			defer func() { recover() }() // the first rejection is a panic on trees without the KF-43 fix
			_, err := Eval(context.Background(), `s.N`, WithGlobals(map[string]any{"s": &kf44S{N: 7}}))
			if err == nil {
				t.Errorf("attempt %d: Eval accepted a global whose type cannot be registered", i+1)
			} else if i == 1 && !contains(err.Error(), "unsupported kind") {
				t.Errorf("attempt 2: the value was accepted half-built: %v", err)
			}
		}()
	}
}

func contains(s, sub string) bool {
	for i := 0; i+len(sub) <= len(s); i++ {
		if s[i:i+len(sub)] == sub {
			return true
		}
	}
	return false
}
