package object

// Witness for KF-28 (C08): PointerConverter.To builds the pointer with reflect.New(reflect.TypeOf(v)); when the
// element converter returns a nil Go value without an error (DynamicConverter.To of an object whose Interface()
// is nil, e.g. a module or a builtin) reflect.TypeOf(v) is nil and reflect.New panics instead of the conversion
// being rejected with an error.

import (
	"context"
	"reflect"
	"testing"
)

type verifKF28Target struct{}

func (t *verifKF28Target) Take(p *interface{}) bool { return p != nil }

func TestVerifKF28(t *testing.T) {
	defer func() {
		if r := recover(); r != nil {
			t.Errorf("conversion panicked: %v", r)
		}
	}()
	conv, err := NewTypeConverter(reflect.TypeOf((*interface{})(nil)))
	if err != nil {
		t.Fatal(err)
	}
	mod := NewBuiltinsModule("m", map[string]Object{})
	if _, err := conv.To(mod); err != nil {
		t.Logf("rejected cleanly: %v", err)
	}
	// the same through a proxied method call, as a script would reach it
	proxy, err := NewProxy(&verifKF28Target{})
	if err != nil {
		t.Fatal(err)
	}
	m, ok := proxy.GetAttr("Take")
	if !ok {
		t.Fatal("no method")
	}
	res := m.(*Builtin).Call(context.Background(), mod)
	t.Logf("call result: %v", res.Inspect())
}
