package risor

import (
	"context"
	"testing"
)

type kf60K string
type kf60H struct {
	M map[kf60K]int
}

// KF-60 (C08): a map whose key type is a named string type crosses the boundary like a string-keyed map (reading it
// used to panic: "interface {} is K, not string"; writing it was rejected as not assignable).
func TestVerifKF60(t *testing.T) {
	h := &kf60H{M: map[kf60K]int{"a": 1}}
	v, err := Eval(context.Background(), `h.M`, WithGlobals(map[string]any{"h": h}))
	if err != nil {
		t.Fatalf("h.M: %v", err)
	}
	if v.Inspect() != `{"a": 1}` {
		t.Fatalf("h.M = %s", v.Inspect())
	}
	_, err = Eval(context.Background(), `h.M = {b: 2, c: 3}`, WithGlobals(map[string]any{"h": h}))
	if err != nil {
		t.Fatalf("h.M = {...}: %v", err)
	}
	if len(h.M) != 2 || h.M["b"] != 2 || h.M["c"] != 3 {
		t.Fatalf("Go sees %v after h.M = {b: 2, c: 3}", h.M)
	}
}
