package risor

import (
	"context"
	"fmt"
	"strings"
	"testing"
)

type kf47Inner struct{ N int }
type kf47S struct {
	Str fmt.Stringer
	In  kf47Inner
}

func (s *kf47S) Iface(x fmt.Stringer) string {
	if x == nil {
		return "nil"
	}
	return x.String()
}

// KF-47 (C08): a script value that does not fit the Go type of a field or parameter is rejected with an error, not
// with a reflect panic; a struct-valued field written from a map reads back as written.
func TestVerifKF47(t *testing.T) {
	for _, src := range []string{`s.Str = 5`, `s.Iface(5)`, `s.Str = s.In`} {
		_, err := Eval(context.Background(), src, WithGlobals(map[string]any{"s": &kf47S{}}))
		if err == nil {
			t.Errorf("%s: expected an error", src)
		} else if strings.Contains(err.Error(), "panic") {
			t.Errorf("%s: %v", src, err)
		}
	}
	s := &kf47S{}
	v, err := Eval(context.Background(), `s.In = {N: 2}; s.In.N`, WithGlobals(map[string]any{"s": s}))
	if err != nil {
		t.Fatalf("s.In = {N: 2}: %v", err)
	}
	if v.Inspect() != "2" || s.In.N != 2 {
		t.Errorf("s.In = {N: 2}; s.In.N = %v (Go sees %d), want 2", v, s.In.N)
	}
}
