package vm

import (
	"context"
	"testing"

	"github.com/risor-io/risor/compiler"
	"github.com/risor-io/risor/object"
	"github.com/risor-io/risor/parser"
)

// KF-76 (C07): a data-stack overflow (recovered by Call) leaves the VM usable. push incremented sp before the
// failing store, so sp stayed out of range, the deferred resumeFrame panicked in pop and every later Call failed.
func TestVerifKF76(t *testing.T) {
	ctx := context.Background()
	src := `func deep(n) { return [1,2,3,4,5,6,7,8, deep(n+1)] }
func ok() { return 42 }`
	ast, err := parser.Parse(ctx, src)
	if err != nil {
		t.Fatal(err)
	}
	code, err := compiler.Compile(ast)
	if err != nil {
		t.Fatal(err)
	}
	machine := New(code)
	if err := machine.Run(ctx); err != nil {
		t.Fatal(err)
	}
	deep, _ := machine.Get("deep")
	okf, _ := machine.Get("ok")
	_, err = machine.Call(ctx, deep.(*object.Function), []object.Object{object.NewInt(0)})
	if err == nil {
		t.Fatal("expected overflow error")
	}
	t.Logf("overflow error: %v", err)
	v, err := machine.Call(ctx, okf.(*object.Function), nil)
	if err != nil {
		t.Fatalf("call after overflow: %v", err)
	}
	if v.Inspect() != "42" {
		t.Fatalf("got %s", v.Inspect())
	}
}
