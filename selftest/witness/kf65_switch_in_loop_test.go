package risor

import (
	"context"
	"testing"
)

// KF-65 (C04 / C01; the switch part of KF-1): break and continue inside a switch inside a loop discard the switch
// value before they jump. They used to leave it on the stack: in a range loop the next iteration popped it as the
// iterator ("*object.Int is not object.Iterator"), in a counting loop one slot leaked per jump until the stack
// overflowed.
func TestVerifKF65(t *testing.T) {
	for src, want := range map[string]string{
		`r := []; for i, v := range [1, 2, 3] { switch v { case 2: continue }; r.append(v) }; r`:                      `[1, 3]`,
		`r := []; for _, v := range [1, 2, 3] { switch v { case 2: break }; r.append(v) }; r`:                         `[1]`,
		`n := 0; for i := 0; i < 5000; i++ { for j := 0; j < 3; j++ { switch j { case 1: break } }; n++ }; n`:          `5000`,
		`n := 0; for i := 0; i < 5000; i++ { switch i % 2 { case 1: continue }; n++ }; n`:                             `2500`,
		`r := []; for _, v := range [1, 2, 3, 4] { switch v { case 2: switch v { case 2: continue } }; r.append(v) }; r`: `[1, 3, 4]`,
		`r := []; for x in [1, 2, 3] { switch x { case 1: continue; default: r.append(x) } }; r`:                      `[2, 3]`,
		`func f() { for _, v := range [1, 2, 3] { switch v { case 2: return v } }; return 0 }; f()`:                   `2`,
	} {
		v, err := Eval(context.Background(), src)
		if err != nil {
			t.Errorf("%s: %v", src, err)
		} else if v.Inspect() != want {
			t.Errorf("%s = %s, want %s", src, v.Inspect(), want)
		}
	}
}
