package risor

import (
	"context"
	"testing"
	"time"
)

// KF-70 (C01): a for loop without init and condition but with a post statement keeps the post statement. It was
// compiled as the bare `for { }` form, so x was never incremented and the loop did not end.
func TestVerifKF70(t *testing.T) {
	ctx, cancel := context.WithTimeout(context.Background(), 5*time.Second)
	defer cancel()
	v, err := Eval(ctx, `x := 0; for ;;; x++ { if x > 2 { break } }; x`)
	if err != nil {
		t.Fatalf("%v", err)
	}
	if v.Inspect() != "3" {
		t.Fatalf("got %s, want 3", v.Inspect())
	}
}
