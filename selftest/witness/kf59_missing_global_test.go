package risor

import (
	"context"
	"strings"
	"testing"

	"github.com/risor-io/risor/compiler"
	"github.com/risor-io/risor/parser"
)

// KF-59 (C11): code compiled with the name of a global that the running configuration has removed reports that the
// global has no value; it used to push a nil object and fail with a recovered nil-pointer panic.
func TestVerifKF59(t *testing.T) {
	ctx := context.Background()
	ast, err := parser.Parse(ctx, `os.getpid()`)
	if err != nil {
		t.Fatal(err)
	}
	code, err := compiler.Compile(ast, NewConfig().CompilerOpts()...)
	if err != nil {
		t.Fatal(err)
	}
	_, err = EvalCode(ctx, code, WithoutGlobal("os"))
	if err == nil {
		t.Fatalf("a removed global was still available")
	}
	if strings.Contains(err.Error(), "panic") {
		t.Fatalf("%v", err)
	}
}
