package risor

import (
	"context"
	"os"
	"os/exec"
	"strings"
	"testing"
	"time"
)

// KF-57 (C03): source text of a few megabytes must not end the process. Deeply nested brackets and prefix operators,
// a very long operator chain (all recursion over the syntax tree in parser and compiler) and a long run of comments
// (the lexer's Next called itself once per comment) exhausted the Go stack: "fatal error: stack overflow".
// The scripts run in a child process; an error result is fine, a dead child is not.
func TestVerifKF57(t *testing.T) { deepSource(t, "TestVerifKF57", "paren", "list", "not", "infix")
}

// KF-64 (second half): a chain of else-if branches is counted against the depth limit too.
func TestVerifKF64b(t *testing.T) {
	deepSource(t, "TestVerifKF64b", "elseif") }

// KF-58: the same for a long run of comments (lexer).
func TestVerifKF58(t *testing.T) { deepSource(t, "TestVerifKF58", "comment") }

func deepSource(t *testing.T, self string, kinds ...string) {
	if kind := os.Getenv("KF57_KIND"); kind != "" {
		var src string
		switch kind {
		case "paren":
			src = strings.Repeat("(", 3000000) + "1" + strings.Repeat(")", 3000000)
		case "list":
			src = strings.Repeat("[", 3000000) + "1" + strings.Repeat("]", 3000000)
		case "not":
			src = strings.Repeat("!", 5000000) + "true"
		case "comment":
			src = strings.Repeat("/**/", 5000000) + "1"
		case "infix":
			src = "1" + strings.Repeat("+1", 3000000)
		case "elseif":
			src = "if false {}" + strings.Repeat(" else if false {}", 1500000)
		}
		Eval(context.Background(), src)
		os.Exit(0)
	}
	for _, kind := range kinds {
		ctx, cancel := context.WithTimeout(context.Background(), 90*time.Second)
		defer cancel()
		cmd := exec.CommandContext(ctx, os.Args[0], "-test.run", "^"+self+"$")
		cmd.Env = append(os.Environ(), "KF57_KIND="+kind)
		out, err := cmd.CombinedOutput()
		if err != nil {
			msg := string(out)
			if i := strings.Index(msg, "\n"); i > 0 {
				msg = msg[:i]
			}
			t.Errorf("%s: child process ended with %v: %s", kind, err, msg)
		}
	}
}
