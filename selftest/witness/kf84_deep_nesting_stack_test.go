package risor

import (
	"context"
	"os"
	"os/exec"
	"runtime/debug"
	"strings"
	"testing"
)

// KF-84 (C03, known): printing, comparing or serialising deeply nested acyclic data recurses on the native stack
// without a bound (the in-progress flags of KF-38 stop cycles, not depth): the Go runtime ends the process with
// "fatal error: stack overflow", which no recover catches. The evaluation runs in a child process (this test binary
// re-executed) with a lowered stack limit so that the witness is cheap; the test FAILS as long as the defect exists.
func TestVerifKF84(t *testing.T) {
	if os.Getenv("VERIF_KF84_CHILD") == "1" {
		debug.SetMaxStack(16 << 20)
		v, err := Eval(context.Background(), `l := []; for i := 0; i < 200000; i++ { l = [l] }; len(string(l)) > 0`)
		if err != nil {
			println("child: error:", err.Error())
			return
		}
		println("child: ok:", v.Inspect())
		return
	}
	cmd := exec.Command(os.Args[0], "-test.run", "^TestVerifKF84$")
	cmd.Env = append(os.Environ(), "VERIF_KF84_CHILD=1")
	out, err := cmd.CombinedOutput()
	if err != nil && strings.Contains(string(out), "stack overflow") {
		t.Fatalf("the process evaluating the script died: %v\n%s", err, firstLines(string(out), 3))
	}
	if err != nil {
		t.Fatalf("child failed in an unexpected way: %v\n%s", err, firstLines(string(out), 5))
	}
}

func firstLines(s string, n int) string {
	ls := strings.SplitN(s, "\n", n+1)
	if len(ls) > n {
		ls = ls[:n]
	}
	return strings.Join(ls, "\n")
}
