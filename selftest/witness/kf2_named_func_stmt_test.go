package risor

// Witness for KF-2 (C04): a named function statement leaves its value on the operand stack.

import (
	"context"
	"testing"
)

func TestVerifKF2(t *testing.T) {
	src := `
n := 0
for i := 0; i < 3000; i++ {
  func foo() { return 1 }
  n = i
}
n
`
	if _, err := Eval(context.Background(), src); err != nil {
		t.Fatalf("iteration count alone exhausted the VM: %v", err)
	}
}
