package risor

import (
	"context"
	"testing"

	"github.com/risor-io/risor/compiler"
	"github.com/risor-io/risor/parser"
	"github.com/risor-io/risor/vm"
)

// KF-63 (C17): code compiled incrementally (compiler.WithCode, as a REPL does) survives MarshalCode / UnmarshalCode.
// The second compiler restarted its function counter, two functions shared one ID, and the reloaded code lost the
// link from a function constant to its code (nil dereference when called).
func TestVerifKF63(t *testing.T) {
	ctx := context.Background()
	ast1, _ := parser.Parse(ctx, `func f() { return 1 }`)
	code, err := compiler.Compile(ast1)
	if err != nil {
		t.Fatal(err)
	}
	c2, err := compiler.New(compiler.WithCode(code))
	if err != nil {
		t.Fatal(err)
	}
	ast2, _ := parser.Parse(ctx, "func g() { return 2 }\nf() + g()")
	code, err = c2.Compile(ast2)
	if err != nil {
		t.Fatal(err)
	}
	data, err := compiler.MarshalCode(code)
	if err != nil {
		t.Fatal(err)
	}
	reloaded, err := compiler.UnmarshalCode(data)
	if err != nil {
		t.Fatal(err)
	}
	want, err := vm.Run(ctx, code)
	if err != nil {
		t.Fatal(err)
	}
	got, err := vm.Run(ctx, reloaded)
	if err != nil {
		t.Fatalf("reloaded code: %v (original gives %s)", err, want.Inspect())
	}
	if got.Inspect() != want.Inspect() {
		t.Fatalf("reloaded code gives %s, original %s", got.Inspect(), want.Inspect())
	}
}
