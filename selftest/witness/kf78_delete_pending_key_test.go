package risor

import (
	"context"
	"strings"
	"testing"
)

// KF-78 (C16): removing a key the map iteration has not reached yet is an error of the script, not a nil dereference
// inside the VM (the iterator walks a snapshot of the keys; MapIter.Entry answers (nil, false) for a key that is gone
// and the ForIter instruction ignored the flag).
func TestVerifKF78(t *testing.T) {
	_, err := Eval(context.Background(), `m := {a: 1, b: 2}; for k, v := range m { delete(m, "b") }; len(m)`)
	if err == nil {
		t.Fatalf("want an error")
	}
	if strings.Contains(err.Error(), "nil pointer") || strings.Contains(err.Error(), "panic") {
		t.Fatalf("recovered Go panic instead of an error: %v", err)
	}
	// deleting other keys, or none, still works
	if v, err := Eval(context.Background(), `m := {a: 1, b: 2}; n := 0; for k, v := range m { n += v }; n`); err != nil || v.Inspect() != "3" {
		t.Fatalf("plain iteration: %v, %v", v, err)
	}
}
