package os

// Witness for KF-4 (C13): a mount at /tmp must not serve /tmpfoo (component-wise prefix).
// Run: go test -overlay <ov.json mapping os/zz_kf4_test.go to this file> -run TestVerifKF4 ./os

import (
	"context"
	"testing"
)

func TestVerifKF4(t *testing.T) {
	vos := NewVirtualOS(context.Background(), WithMounts(map[string]*Mount{
		"/tmp": {Source: NewMockFS(), Target: "/tmp", Type: "mock"},
	}))
	m, rel, found := vos.findMount("/tmpfoo/x")
	if found {
		t.Fatalf("path /tmpfoo/x lies under no mount point but was served by mount %q with relative path %q", m.Target, rel)
	}
}
