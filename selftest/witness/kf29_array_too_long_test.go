package object

// Witness for KF-29 (C08): ArrayConverter.To indexed the Go array with the list index without checking the
// list's length: a list longer than the array panicked ("reflect: array index out of range") instead of being
// rejected with an error.

import (
	"reflect"
	"testing"
)

func TestVerifKF29(t *testing.T) {
	defer func() {
		if r := recover(); r != nil {
			t.Errorf("conversion panicked: %v", r)
		}
	}()
	conv, err := NewTypeConverter(reflect.TypeOf([2]int{}))
	if err != nil {
		t.Fatal(err)
	}
	v, err := conv.To(NewList([]Object{NewInt(1), NewInt(2), NewInt(3)}))
	if err == nil {
		t.Errorf("a 3-element list was accepted for [2]int: %#v", v)
	}
	v, err = conv.To(NewList([]Object{NewInt(1), NewInt(2)}))
	if err != nil || v.([2]int) != [2]int{1, 2} {
		t.Errorf("a 2-element list for [2]int: %#v %v", v, err)
	}
}
