package risor

import (
	"context"
	"testing"
)

// KF-83 (C03): a parameter default of nil after a parameter with a real default was stored as a Go nil and not counted
// as a default; a call that left it out put the Go nil into the parameter's slot: `return [b]` handed the host a list
// whose Inspect() dereferences nil (panic in the caller of Eval), `return b` indexed the VM stack at -1.
func TestVerifKF83(t *testing.T) {
	for src, want := range map[string]string{
		"func f(a=1, b=nil) { return [b] }; f(5)":       "[nil]",
		"func f(a=1, b=nil) { return b }; f(5)":         "nil",
		"func f(a=1, b=nil) { return [a, b] }; f()":     "[1, nil]",
		"func f(a=1, b=nil) { return [a, b] }; f(5, 6)": "[5, 6]",
		"func f(a, b=3) { return [a, b] }; f(1)":        "[1, 3]",
	} {
		func() {
			defer func() {
				if r := recover(); r != nil {
					t.Fatalf("%s: panic reached the host: %v", src, r)
				}
			}()
			v, err := Eval(context.Background(), src)
			if err != nil {
				t.Fatalf("%s: %v", src, err)
			}
			if got := v.Inspect(); got != want {
				t.Fatalf("%s: got %s, want %s", src, got, want)
			}
		}()
	}
}
