package risor

import (
	"context"
	"testing"
)

// KF-40 (C01): list.each and list.filter accept a builtin (their own type check lets *Builtin through) and must
// call it, like list.map does, instead of failing on an unchecked type assertion.
func TestVerifKF40(t *testing.T) {
	for src, want := range map[string]string{
		`[[1], [], [2, 3]].filter(len)`:           `[[1], [2, 3]]`,
		`x := []; [3, 4].each(x.append); x`:       `[3, 4]`,
		`["a", ""].filter(func(s) { return s })`: `["a"]`,
	} {
		v, err := Eval(context.Background(), src)
		if err != nil {
			t.Errorf("%s: %v", src, err)
			continue
		}
		if v == nil || v.Inspect() != want {
			t.Errorf("%s = %v, want %s", src, v, want)
		}
	}
}
