package risor

import (
	"context"
	"testing"
)

// KF-49 (C08): a nil Go value given as a global is the script's nil, not a nil-pointer panic in the host.
func TestVerifKF49(t *testing.T) {
	defer func() {
		if r := recover(); r != nil {
			t.Fatalf("Eval panicked: %v", r)
		}
	}()
	v, err := Eval(context.Background(), `x == nil`, WithGlobal("x", nil))
	if err != nil {
		t.Fatalf("Eval: %v", err)
	}
	if v.Inspect() != "true" {
		t.Fatalf("x == nil is %v for a nil global", v)
	}
}
