package risor

import (
	"context"
	"testing"
)

// KF-68 (C01, pipes): a call nested in the arguments of a pipe stage is an ordinary call. The compiler compiled every
// call while a pipe was being compiled as a partial, so `1 | add(inc(1))` passed a partial to add.
func TestVerifKF68(t *testing.T) {
	for src, want := range map[string]string{
		`inc := func(x) { return x + 1 }; add := func(x, y) { return x + y }; 1 | add(inc(1))`: `3`,
		`add := func(x, y) { return x + y }; 1 | add(len([1, 2]))`:                             `3`,
		`m := {f: func(a, b) { return a * b }}; 3 | m.f(len("ab"))`:                            `6`,
		`add := func(x, y) { return x + y }; 1 | add(2) | add(3)`:                              `6`,
	} {
		v, err := Eval(context.Background(), src)
		if err != nil {
			t.Errorf("%s: %v", src, err)
		} else if v.Inspect() != want {
			t.Errorf("%s = %s, want %s", src, v.Inspect(), want)
		}
	}
}
