package risor

import (
	"context"
	"strings"
	"testing"

	"github.com/risor-io/risor/object"
)

type kf46S struct{ N int }

// KF-46 (C08): a nil pointer given to a script is a proxy; reading or writing one of its fields must be an error,
// not a reflect panic ("call of reflect.Value.FieldByName on zero Value").
func TestVerifKF46(t *testing.T) {
	var p *kf46S
	for _, src := range []string{`s.N`, `s.N = 1`} {
		v, err := Eval(context.Background(), src, WithGlobals(map[string]any{"s": p}))
		if err == nil {
			// GetAttr reports its errors as error values (the convention of Proxy.GetAttr)
			if _, isErr := v.(*object.Error); !isErr {
				t.Errorf("%s = %v: expected an error", src, v)
			}
		} else if strings.Contains(err.Error(), "panic") {
			t.Errorf("%s: %v", src, err)
		}
	}
}
