package risor

// Witness for KF-33 (C11): resolveModule walks a dotted module path by looking every component up in the ROOT
// module instead of in the module found so far. With modules nested three deep, WithoutGlobal("a.b.c.secret")
// therefore resolves "c" in a (where it does not exist), gives up, and the denied member stays reachable;
// WithGlobalOverride("a.b.c.secret", v) is silently ignored for the same reason.

import (
	"context"
	"testing"

	"github.com/risor-io/risor/object"
)

func verifKF33Modules() *object.Module {
	c := object.NewBuiltinsModule("c", map[string]object.Object{"secret": object.NewInt(42), "other": object.NewInt(1)})
	b := object.NewBuiltinsModule("b", map[string]object.Object{"c": c})
	return object.NewBuiltinsModule("a", map[string]object.Object{"b": b})
}

func TestVerifKF33(t *testing.T) {
	ctx := context.Background()
	// sanity: two levels work
	if _, err := Eval(ctx, `a.b.c.other`, WithGlobal("a", verifKF33Modules())); err != nil {
		t.Fatal(err)
	}
	v, err := Eval(ctx, `a.b.c.secret`, WithGlobal("a", verifKF33Modules()), WithoutGlobal("a.b.c.secret"))
	if err == nil {
		t.Errorf("a.b.c.secret was removed with WithoutGlobal but is still reachable: %s", v.Inspect())
	}
	v, err = Eval(ctx, `a.b.c.secret`, WithGlobal("a", verifKF33Modules()), WithGlobalOverride("a.b.c.secret", 7))
	if err != nil {
		t.Fatal(err)
	}
	if v.Inspect() != "7" {
		t.Errorf("a.b.c.secret was overridden with 7 but evaluates to %s", v.Inspect())
	}
}
