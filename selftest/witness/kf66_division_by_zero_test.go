package risor

import (
	"context"
	"strings"
	"testing"
)

// KF-66 (C01, try/error): integer division and modulo by zero raise a script error that try can catch; they used to
// be a Go "integer divide by zero" panic that the VM recovered and that aborted the evaluation.
func TestVerifKF66(t *testing.T) {
	for _, expr := range []string{`1 / 0`, `1 % 0`, `byte(1) / byte(0)`, `byte(5) % 0`, `7 / byte(0)`} {
		v, err := Eval(context.Background(), `try(func() { return `+expr+` }, func(e) { return "caught" })`)
		if err != nil {
			t.Errorf("%s: evaluation aborted: %v", expr, err)
		} else if v.Inspect() != `"caught"` {
			t.Errorf("%s = %s, want the error to reach the handler", expr, v.Inspect())
		}
		_, err = Eval(context.Background(), expr)
		if err == nil || strings.Contains(err.Error(), "panic") {
			t.Errorf("%s: want a plain error, got %v", expr, err)
		}
	}
	if v, err := Eval(context.Background(), `[7 / 2, 7 % 2, byte(7) / byte(2), -7 / 2]`); err != nil || v.Inspect() != `[3, 1, 3, -3]` {
		t.Errorf("ordinary division changed: %v %v", v, err)
	}
}
