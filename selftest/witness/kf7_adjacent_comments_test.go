package parser

// Witness for KF-7 (C20): a block comment directly followed by another comment changed the token
// stream (the second comment start was lexed as a division operator or an invalid identifier).

import (
	"context"
	"testing"
)

func TestVerifKF7(t *testing.T) {
	ref, err := Parse(context.Background(), "1 + 2")
	if err != nil {
		t.Fatal(err)
	}
	for _, src := range []string{"1 /* a */ /* b */ + 2", "1 + 2 /* a */ // b", "1 + 2 /* a */ # b", "1 /* a *//* b */ + 2"} {
		prog, err := Parse(context.Background(), src)
		if err != nil {
			t.Errorf("inserting comments between tokens changed the outcome for %q: %v", src, err)
			continue
		}
		if prog.String() != ref.String() {
			t.Errorf("inserting comments changed the syntax tree of %q: %s", src, prog.String())
		}
	}
}
