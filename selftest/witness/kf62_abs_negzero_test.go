package risor

import (
	"context"
	"testing"
)

// KF-62 (C19): math.abs returns what Go's math.Abs returns, also for -0.0 (the wrapper's "v < 0" test missed the
// negative zero: 1.0 / math.abs(-0.0) was -Inf).
func TestVerifKF62(t *testing.T) {
	v, err := Eval(context.Background(), `1.0 / math.abs(-1.0 * 0.0) > 0`)
	if err != nil {
		t.Fatal(err)
	}
	if v.Inspect() != "true" {
		t.Fatalf("1.0 / math.abs(-0.0) is not +Inf: math.abs(-0.0) kept the sign")
	}
}
