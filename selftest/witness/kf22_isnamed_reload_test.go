package risor

// Witness for KF-22 (C17): codeFromState recomputed isNamed as Name != "" && Name != "__main__", while the
// compiler marks every named function literal. A function literal named __main__ lost its self binding
// after marshal + unmarshal.

import (
	"context"
	"testing"

	"github.com/risor-io/risor/compiler"
	"github.com/risor-io/risor/parser"
)

func TestVerifKF22(t *testing.T) {
	ctx := context.Background()
	src := `func __main__(n) { if n == 0 { return 0 }; return __main__(n-1) + 1 }; __main__(3)`
	ast, err := parser.Parse(ctx, src)
	if err != nil {
		t.Fatal(err)
	}
	cfg := NewConfig()
	code, err := compiler.Compile(ast, cfg.CompilerOpts()...)
	if err != nil {
		t.Fatal(err)
	}
	want, err := EvalCode(ctx, code)
	if err != nil {
		t.Fatal(err)
	}
	data, err := compiler.MarshalCode(code)
	if err != nil {
		t.Fatal(err)
	}
	reloaded, err := compiler.UnmarshalCode(data)
	if err != nil {
		t.Fatal(err)
	}
	got, err := EvalCode(ctx, reloaded)
	if err != nil {
		t.Fatalf("original code evaluates to %v, reloaded code fails: %v", want, err)
	}
	if got.Inspect() != want.Inspect() {
		t.Fatalf("original %v, reloaded %v", want, got)
	}
}
