package risor

import (
	"context"
	"testing"
)

// KF-69 (C03): compiling a three-part for loop without a condition (the parser accepts `for init;;; post { }`) printed
// the loop with For.String, which dereferenced the missing condition: a nil pointer panic in the embedding process.
func TestVerifKF69(t *testing.T) {
	for _, src := range []string{
		`for i := 0;;; i++ { if i > 2 { break } }`,
		`x := 0; for ;;; x++ { if x > 2 { break } }; x`,
		`x := 0; for ; x < 3; x++ { }; x`,
	} {
		func() {
			defer func() {
				if r := recover(); r != nil {
					t.Errorf("%s: panic: %v", src, r)
				}
			}()
			if _, err := Eval(context.Background(), src); err != nil {
				t.Errorf("%s: %v", src, err)
			}
		}()
	}
}
