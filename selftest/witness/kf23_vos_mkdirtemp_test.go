package os

// Witness for KF-23 (C13): VirtualOS.MkdirTemp ignores the relative path of the temp directory inside
// its mount: with "/" mounted and tmp="/tmp" the directory is created at the root of the mount's source
// while the returned name points below /tmp, where nothing exists.

import (
	"context"
	"testing"
)

func TestVerifKF23(t *testing.T) {
	src := NewMockFS()
	vos := NewVirtualOS(context.Background(), WithMounts(map[string]*Mount{
		"/": {Source: src, Target: "/", Type: "mock"},
	}), WithTmp("/tmp"))
	if err := vos.MkdirAll("/tmp", 0o755); err != nil {
		t.Skip("mock fs cannot create /tmp:", err)
	}
	name, err := vos.MkdirTemp("", "x")
	if err != nil {
		t.Fatal(err)
	}
	if _, err := vos.Stat(name); err != nil {
		t.Fatalf("MkdirTemp returned %q but that path does not exist in the mount (created elsewhere): %v", name, err)
	}
}
