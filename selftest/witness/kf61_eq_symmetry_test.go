package risor

import (
	"context"
	"testing"
)

// KF-61 (C15): == is symmetric between a string and a byte_slice (byte_slice("a") == "a" was true while
// "a" == byte_slice("a") was false).
func TestVerifKF61(t *testing.T) {
	for _, pair := range [][2]string{{`byte_slice("a")`, `"a"`}, {`byte_slice("a")`, `"b"`}, {`byte_slice([255])`, `"x"`}, {`byte_slice("")`, `""`}} {
		ab, err1 := Eval(context.Background(), pair[0]+" == "+pair[1])
		ba, err2 := Eval(context.Background(), pair[1]+" == "+pair[0])
		if err1 != nil || err2 != nil {
			t.Fatalf("%v %v", err1, err2)
		}
		if ab.Inspect() != ba.Inspect() {
			t.Errorf("%s == %s is %s but %s == %s is %s", pair[0], pair[1], ab.Inspect(), pair[1], pair[0], ba.Inspect())
		}
		nab, _ := Eval(context.Background(), pair[0]+" != "+pair[1])
		if nab.Inspect() == ab.Inspect() {
			t.Errorf("%s != %s is not the negation of ==", pair[0], pair[1])
		}
	}
}
