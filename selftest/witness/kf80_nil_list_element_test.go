package risor

import (
	"context"
	"testing"
)

// KF-80 (C03): no source text panics the host. "(" directly followed by a newline made parseGroupedExpr answer nil
// without recording an error; as the second or later element of a list / argument list the nil was appended (only the
// first element was tested) and compiler.Compile dereferenced it (String() of the tree, outside any recover).
func TestVerifKF80(t *testing.T) {
	for _, src := range []string{"[1, (\n))]", "print(1, (\n)))", "x := [1]; x.append(1, (\n)))", "f := func(a, b) {}; f(1, (\n)))", "[1, 2, (\n\n))]"} {
		func() {
			defer func() {
				if r := recover(); r != nil {
					t.Fatalf("%q: panic reached the host: %v", src, r)
				}
			}()
			if _, err := Eval(context.Background(), src); err == nil {
				t.Fatalf("%q: want a parse error", src)
			}
		}()
	}
	if v, err := Eval(context.Background(), "[1, (2), (1 +\n2)]"); err != nil || v.Inspect() != "[1, 2, 3]" {
		t.Fatalf("grouped elements: %v, %v", v, err)
	}
}
