package risor

import (
	"context"
	"strings"
	"testing"
)

type verifKF75 struct{}

func (h *verifKF75) One(a int) int { return a }

// KF-75 (C08): a Go method receives exactly the arguments the script passed. Proxy.call converted one argument per
// parameter and dropped the rest without an error.
func TestVerifKF75(t *testing.T) {
	g := map[string]any{"h": &verifKF75{}}
	if v, err := Eval(context.Background(), `h.One(1)`, WithGlobals(g)); err != nil || v.Inspect() != "1" {
		t.Fatalf("h.One(1) = %v, %v", v, err)
	}
	_, err := Eval(context.Background(), `h.One(1, 2, 3)`, WithGlobals(g))
	if err == nil || !strings.Contains(err.Error(), "args error") {
		t.Fatalf("h.One(1, 2, 3): want an args error, got %v", err)
	}
}
