package risor

// Witness for KF-36 (C10): iteration over a channel (`for _, v := range c`) calls Chan.Next, which stores the
// received value in the channel object (lastReceived, rxCount), and then reads it back through Chan.Entry. With two
// goroutines iterating over the same channel the second receive can overwrite lastReceived before the first
// iterator reads it: one value is delivered twice and another is lost.

import (
	"context"
	"testing"
)

func TestVerifKF36(t *testing.T) {
	src := `
c := chan(0)
results := chan(2)
func consume(c, results) {
	sum := 0
	count := 0
	for _, v := range c {
		sum += v
		count++
	}
	results <- [sum, count]
}
go consume(c, results)
go consume(c, results)
n := 20000
for i := 1; i <= n; i++ { c <- i }
close(c)
a := <-results
b := <-results
[a[0] + b[0], a[1] + b[1], n * (n + 1) / 2]
`
	for round := 0; round < 5; round++ {
		v, err := Eval(context.Background(), src, WithConcurrency())
		if err != nil {
			t.Fatal(err)
		}
		got := v.Interface().([]interface{})
		if got[0] != got[2] || got[1] != int64(20000) {
			t.Fatalf("round %d: two receivers got sum %v of %v values, want sum %v of 20000 values", round, got[0], got[1], got[2])
		}
	}
}
