package risor

import (
	"context"
	"testing"
)

type kf45S struct {
	E error
	N int
}

// KF-45 (C08): reading a struct field of type error that holds nil must give nil, not a type-assertion panic.
func TestVerifKF45(t *testing.T) {
	v, err := Eval(context.Background(), `s.E`, WithGlobals(map[string]any{"s": &kf45S{N: 1}}))
	if err != nil {
		t.Fatalf("s.E: %v", err)
	}
	if v == nil || v.Inspect() != "nil" {
		t.Fatalf("s.E = %v, want nil", v)
	}
}
