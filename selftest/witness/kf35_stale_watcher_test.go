package vm

// Witness for KF-35 (C07): start() spawns a goroutine that sets vm.halt when the context of THIS invocation is
// done; stop() never disarms it. When a VM is reused and the context of an earlier, finished invocation is
// cancelled while a later invocation runs, the stale watcher sets halt; eval then returns ctx.Err() of the
// CURRENT context, which is nil: the later invocation stops half way and reports success.

import (
	"context"
	"testing"
	"time"

	"github.com/risor-io/risor/compiler"
	"github.com/risor-io/risor/parser"
)

func verifKF35Compile(t *testing.T, src string) *compiler.Code {
	ast, err := parser.Parse(context.Background(), src)
	if err != nil {
		t.Fatal(err)
	}
	code, err := compiler.Compile(ast)
	if err != nil {
		t.Fatal(err)
	}
	return code
}

func TestVerifKF35(t *testing.T) {
	first := verifKF35Compile(t, `1 + 1`)
	second := verifKF35Compile(t, `n := 0; for i := 0; i < 3000000; i++ { n = n + 1 }; n`)
	machine, err := NewEmpty()
	if err != nil {
		t.Fatal(err)
	}
	ctx1, cancel1 := context.WithCancel(context.Background())
	if err := machine.RunCode(ctx1, first); err != nil {
		t.Fatal(err)
	}
	// the first invocation is over; its context is cancelled a little later, while the second one runs
	go func() {
		time.Sleep(20 * time.Millisecond)
		cancel1()
	}()
	err = machine.RunCode(context.Background(), second)
	if err != nil {
		t.Fatalf("second run failed: %v", err)
	}
	tos, ok := machine.TOS()
	if !ok || tos.Inspect() != "3000000" {
		var got string
		if ok {
			got = tos.Inspect()
		}
		t.Errorf("second run returned success but its result is %q (ok=%v), want 3000000", got, ok)
	}
}
