package risor

import (
	"context"
	"testing"

	"github.com/risor-io/risor/object"
)

// KF-79 (C11): a replacement installed with WithGlobalOverride is what every access path observes. An override whose
// value cannot be converted made applyOverrides return at once; the error was dropped (NewConfig ignores init's
// result), so every override that sorts after the bad one silently stayed unapplied.
func TestVerifKF79(t *testing.T) {
	fake := object.NewBuiltin("getenv", func(ctx context.Context, args ...object.Object) object.Object {
		return object.NewString("fake")
	})
	// the valid override alone
	v, err := Eval(context.Background(), `os.getenv("HOME")`, WithGlobalOverride("os.getenv", fake))
	if err != nil || v.Inspect() != `"fake"` {
		t.Fatalf("valid override: %v, %v", v, err)
	}
	// together with an unusable one that sorts before it: either an error, or the valid override is in place
	v, err = Eval(context.Background(), `os.getenv("HOME")`,
		WithGlobalOverride("fmt.printf", struct{ X chan int }{}),
		WithGlobalOverride("os.getenv", fake))
	if err == nil && v.Inspect() != `"fake"` {
		t.Fatalf("the script ran against the real os.getenv (override dropped silently): %v", v)
	}
	if err == nil {
		t.Fatalf("the unusable override was not reported")
	}
}
