package os

import (
	"context"
	"testing"
)

// KF-74 (C13): VirtualOS.MkdirTemp takes a directory name pattern, not a path. A pattern with separators was joined
// onto the temporary directory unchecked, so the temp mount created a directory at a path that belongs to another
// mount and the call answered with that other mount's path.
func TestVerifKF74(t *testing.T) {
	root := NewMockFS()
	data := NewMockFS()
	vos := NewVirtualOS(context.Background(),
		WithMounts(map[string]*Mount{
			"/":     {Source: root, Target: "/"},
			"/data": {Source: data, Target: "/data"},
		}),
		WithTmp("/tmp"))
	if err := vos.MkdirAll("/tmp", 0o755); err != nil {
		t.Fatalf("mkdir /tmp: %v", err)
	}
	for _, pattern := range []string{"x/../../data/evil", "a/b", "../up"} {
		if got, err := vos.MkdirTemp("", pattern); err == nil {
			t.Errorf("MkdirTemp(%q) = %q, want an error", pattern, got)
		}
	}
	if _, err := vos.MkdirTemp("", "plain"); err != nil {
		t.Errorf("MkdirTemp(plain): %v", err)
	}
}
