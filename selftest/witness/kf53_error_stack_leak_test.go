package risor

import (
	"context"
	"testing"
)

// KF-53 (C07 / C01 try): a call that fails leaves nothing on the VM's stack. resumeFrame used to keep the top item of
// a failed call as its "result", one leaked slot per caught error: after about a thousand caught errors every
// further push overflowed the stack.
func TestVerifKF53(t *testing.T) {
	src := `n := 0
for i := 0; i < 3000; i++ {
	try(func() { [1, 2, nil.foo] }, func(e) { n++ })
}
n`
	v, err := Eval(context.Background(), src)
	if err != nil {
		t.Fatalf("3000 caught errors: %v", err)
	}
	if v.Inspect() != "3000" {
		t.Fatalf("n = %s, want 3000", v.Inspect())
	}
}
