package risor

import (
	"context"
	"strings"
	"testing"
)

type kf55Inner struct{ N int }
type kf55Other struct{ Q int }
type kf55H struct {
	S []kf55Inner
	P *kf55Inner
}

func (h *kf55H) Take(p *kf55Inner) int { return p.N }

// KF-55 (C08): the proxy of a value of another struct type is rejected where a given struct type is expected (list
// element, field, parameter) - StructConverter.To returned whatever the proxy wrapped and reflect panicked later
// ("value of type Other is not assignable to type Inner").
func TestVerifKF55(t *testing.T) {
	g := func() map[string]any {
		return map[string]any{"h": &kf55H{}, "o": &kf55Other{}, "i": &kf55Inner{N: 3}}
	}
	for _, src := range []string{`h.S = [o]`, `h.P = o`, `h.Take(o)`} {
		_, err := Eval(context.Background(), src, WithGlobals(g()))
		if err == nil {
			t.Errorf("%s: expected an error", src)
		} else if strings.Contains(err.Error(), "panic") {
			t.Errorf("%s: %v", src, err)
		}
	}
	for src, want := range map[string]string{`h.S = [i]; len(h.S)`: "1", `h.P = i; h.P.N`: "3", `h.Take(i)`: "3"} {
		v, err := Eval(context.Background(), src, WithGlobals(g()))
		if err != nil || v.Inspect() != want {
			t.Errorf("%s = %v, %v; want %s", src, v, err, want)
		}
	}
}
