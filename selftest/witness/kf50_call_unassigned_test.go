package risor

import (
	"context"
	"testing"

	"github.com/risor-io/risor/compiler"
	"github.com/risor-io/risor/parser"
)

// KF-50 (C03): risor.Call on a name that the code declares but never assigns returns an error; it used to
// dereference the nil slot in the host (outside the VM's recover).
func TestVerifKF50(t *testing.T) {
	ctx := context.Background()
	cfg := NewConfig()
	ast, err := parser.Parse(ctx, `if false { x := 1 }`)
	if err != nil {
		t.Fatal(err)
	}
	code, err := compiler.Compile(ast, cfg.CompilerOpts()...)
	if err != nil {
		t.Fatal(err)
	}
	defer func() {
		if r := recover(); r != nil {
			t.Fatalf("Call panicked in the host: %v", r)
		}
	}()
	if _, err := Call(ctx, code, "x", nil); err == nil {
		t.Fatalf("Call of an unassigned name succeeded")
	}
}
