package risor

import (
	"context"
	"strings"
	"testing"
)

// KF-77 (C01): a constant keeps its value. compileAssign rejected `a = 2`, but the postfix operators and the
// multiple assignment stored to the resolved name without looking at isConstant.
func TestVerifKF77(t *testing.T) {
	for _, src := range []string{
		`const a = 1; a++; a`,
		`const a = 1; a--; a`,
		`const a = 1; b := 0; a, b = [5, 6]; a`,
		`const a = 1; func f() { a++ }; f(); a`,
	} {
		v, err := Eval(context.Background(), src)
		if err == nil || !strings.Contains(err.Error(), "cannot assign to constant") {
			t.Fatalf("%s: want 'cannot assign to constant', got %v, %v", src, v, err)
		}
	}
	// ordinary variables are unaffected
	if v, err := Eval(context.Background(), `a := 1; b := 0; a++; a, b = [a + 4, 6]; a + b`); err != nil || v.Inspect() != "12" {
		t.Fatalf("variables: %v, %v", v, err)
	}
}
