package object

// Witness for KF-31 (C08): MapConverter.To called SetMapIndex(key, reflect.ValueOf(nil)); the zero reflect.Value
// means "delete", so an entry whose value converts to nil was silently dropped: {"a": nil, "b": 1} arrived in
// Go as map[b:1].

import (
	"reflect"
	"testing"
)

func TestVerifKF31(t *testing.T) {
	conv, err := NewTypeConverter(reflect.TypeOf(map[string]interface{}{}))
	if err != nil {
		t.Fatal(err)
	}
	v, err := conv.To(NewMap(map[string]Object{"a": Nil, "b": NewInt(1)}))
	if err != nil {
		return // rejected cleanly
	}
	m := v.(map[string]interface{})
	if a, ok := m["a"]; !ok || a != nil || len(m) != 2 {
		t.Errorf("{\"a\": nil, \"b\": 1} arrived as %#v", m)
	}
}
