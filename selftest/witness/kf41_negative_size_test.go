package risor

import (
	"context"
	"testing"
)

// KF-41 (C01, try/error): byte_slice(n), float_slice(n), buffer(n) and chan(n) with a negative size must raise a script error
// that try can catch (like list(n) does), not a Go makeslice / makechan panic that aborts the evaluation.
func TestVerifKF41(t *testing.T) { negativeSize(t, "byte_slice", "float_slice", "buffer") }

// KF-42: the same for chan(n) (makechan panic).
func TestVerifKF42(t *testing.T) { negativeSize(t, "chan") }

func negativeSize(t *testing.T, ctors ...string) {
	for _, ctor := range ctors {
		src := `try(func() { return ` + ctor + `(-1) }, func(e) { return "caught" })`
		v, err := Eval(context.Background(), src)
		if err != nil {
			t.Errorf("%s: evaluation aborted: %v", src, err)
			continue
		}
		if v == nil || v.Inspect() != `"caught"` {
			t.Errorf("%s = %v, want the error to reach the handler", src, v)
		}
	}
}
