package risor

import (
	"context"
	"strings"
	"testing"
)

// KF-39 (C19): byte_slice.repeat / bytes.repeat with a negative count must be reported as a script error
// (catchable with try), not as a recovered Go panic that aborts the evaluation.
func TestVerifKF39(t *testing.T) {
	for _, src := range []string{
		`try(func() { return byte_slice("ab").repeat(-1) }, func(e) { return "caught" })`,
		`import bytes; try(func() { return bytes.repeat(byte_slice("ab"), -2) }, func(e) { return "caught" })`,
	} {
		v, err := Eval(context.Background(), src)
		if err != nil {
			if strings.Contains(err.Error(), "panic") {
				t.Errorf("%s: evaluation aborted by a Go panic: %v", src, err)
			} else {
				t.Errorf("%s: unexpected error %v", src, err)
			}
			continue
		}
		if v == nil || v.Inspect() != `"caught"` {
			t.Errorf("%s = %v, want the error to reach the handler", src, v)
		}
	}
}
