package risor

import (
	"context"
	"testing"
)

// KF-67 (C01, left-to-right evaluation): the operands of `in` / `not in` and the bounds of a slice expression are
// evaluated left to right. `in` used to evaluate its right operand first, a slice its stop bound before its start.
func TestVerifKF67(t *testing.T) {
	for src, want := range map[string]string{
		`log := []; f := func(x) { log.append(x); return x }; r := f(1) in [f(2), 1]; [r, log]`:          `[true, [1, 2]]`,
		`log := []; f := func(x) { log.append(x); return x }; r := f(1) not in [f(2)]; [r, log]`:         `[true, [1, 2]]`,
		`log := []; f := func(x) { log.append(x); return x }; xs := [1, 2, 3, 4]; r := xs[f(0):f(2)]; [r, log]`: `[[1, 2], [0, 2]]`,
		`xs := [1, 2, 3, 4]; [xs[1:], xs[:2], xs[1:3], xs[:], "hello"[1:], 2 in xs, 9 in xs, 9 not in xs]`: `[[2, 3, 4], [1, 2], [2, 3], [1, 2, 3, 4], "ello", true, false, true]`,
	} {
		v, err := Eval(context.Background(), src)
		if err != nil {
			t.Errorf("%s: %v", src, err)
		} else if v.Inspect() != want {
			t.Errorf("%s = %s, want %s", src, v.Inspect(), want)
		}
	}
}
