package risor

import (
	"context"
	"strings"
	"testing"
)

// KF-73 (C03 / C16): sorting a list with a non-comparable item reports the type error. The comparison closure of
// object.Sort called Compare on a nil interface after noticing the item was not comparable.
func TestVerifKF73(t *testing.T) {
	for _, src := range []string{`sorted([{a: 1}, {b: 2}])`, `l := [{a: 1}, 1]; l.sort()`, `sorted([1, {b: 2}])`} {
		_, err := Eval(context.Background(), src)
		if err == nil {
			t.Errorf("%s: expected a type error", src)
		} else if strings.Contains(err.Error(), "nil pointer") || !strings.Contains(err.Error(), "non-comparable") {
			t.Errorf("%s: %v", src, err)
		}
	}
}
