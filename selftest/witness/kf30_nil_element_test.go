package object

// Witness for KF-30 (C08): SliceConverter.To and ArrayConverter.To passed reflect.ValueOf(item) to
// reflect.Append / Value.Set; for an element that converts to a nil Go value (nil in a []interface{} or []*T)
// that is the zero reflect.Value and the conversion panicked.

import (
	"reflect"
	"testing"
)

func TestVerifKF30(t *testing.T) {
	try := func(name string, typ reflect.Type, obj Object, check func(v interface{}) bool) {
		defer func() {
			if r := recover(); r != nil {
				t.Errorf("%s: conversion panicked: %v", name, r)
			}
		}()
		conv, err := NewTypeConverter(typ)
		if err != nil {
			t.Fatal(err)
		}
		v, err := conv.To(obj)
		if err != nil {
			return // rejected cleanly
		}
		if !check(v) {
			t.Errorf("%s: converted to %#v", name, v)
		}
	}
	list := NewList([]Object{NewInt(1), Nil})
	try("[]interface{}", reflect.TypeOf([]interface{}{}), list, func(v interface{}) bool {
		s := v.([]interface{})
		return len(s) == 2 && s[0] == int64(1) && s[1] == nil
	})
	try("[]*int", reflect.TypeOf([]*int{}), list, func(v interface{}) bool {
		s := v.([]*int)
		return len(s) == 2 && s[0] != nil && *s[0] == 1 && s[1] == nil
	})
	try("[2]interface{}", reflect.TypeOf([2]interface{}{}), list, func(v interface{}) bool {
		s := v.([2]interface{})
		return s[0] == int64(1) && s[1] == nil
	})
}
