package risor

import (
	"context"
	"strings"
	"testing"
)

type kf54Inner struct{ N int }
type kf54H struct{}

func (h *kf54H) ByVal(in kf54Inner) int { return in.N }

// KF-54 (C08): the proxy of a nil *T passed where a T value is expected is rejected with an error (StructConverter
// dereferenced the nil pointer's reflect.Value: "call of reflect.Value.Interface on zero Value").
func TestVerifKF54(t *testing.T) {
	var np *kf54Inner
	_, err := Eval(context.Background(), `h.ByVal(np)`, WithGlobals(map[string]any{"h": &kf54H{}, "np": np}))
	if err == nil {
		t.Fatalf("expected an error")
	}
	if strings.Contains(err.Error(), "panic") {
		t.Fatalf("%v", err)
	}
	v, err := Eval(context.Background(), `h.ByVal(p)`, WithGlobals(map[string]any{"h": &kf54H{}, "p": &kf54Inner{N: 4}}))
	if err != nil || v.Inspect() != "4" {
		t.Fatalf("h.ByVal(p) = %v, %v", v, err)
	}
}
