package parser

// Witness for KF-6 (C20/C03): rendering the friendly message of a parse error whose token spans
// several lines panicked (negative strings.Repeat count).

import (
	"context"
	"testing"
)

func TestVerifKF6(t *testing.T) {
	for _, src := range []string{"x := 1      `a\nb`", "foo(1,      `aaa\nb` `c`)", "[1 `long long\nx`]"} {
		_, err := Parse(context.Background(), src)
		if err == nil {
			continue
		}
		pe, ok := err.(ParserError)
		if !ok {
			continue
		}
		func() {
			defer func() {
				if r := recover(); r != nil {
					t.Errorf("rendering the error message for %q panicked: %v", src, r)
				}
			}()
			_ = pe.FriendlyErrorMessage()
		}()
	}
}
