package risor

import (
	"context"
	"testing"
)

// KF-48 (C19): json.marshal and the "json" codec agree (the codec converted the value with Interface() first, the
// module marshals the object itself: nil, byte slices, buffers and iterators came out differently).
func TestVerifKF48(t *testing.T) {
	for _, v := range []string{`nil`, `byte_slice("ab")`, `buffer("ab")`, `[1, nil, {a: byte_slice("x")}]`, `{1, 2}`, `1.5`, `"s"`, `range(3)`} {
		a, errA := Eval(context.Background(), `json.marshal(`+v+`)`)
		b, errB := Eval(context.Background(), `encode(`+v+`, "json")`)
		if (errA == nil) != (errB == nil) {
			t.Errorf("%s: json.marshal error %v, codec error %v", v, errA, errB)
			continue
		}
		if errA == nil && a.Inspect() != b.Inspect() {
			t.Errorf("%s: json.marshal gives %s, encode(..., \"json\") gives %s", v, a.Inspect(), b.Inspect())
		}
	}
}
