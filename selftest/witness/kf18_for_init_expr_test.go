package risor

// Witness for KF-18 (C04): an expression used as the init clause of a three-part for loop was never
// popped, so every execution of the loop statement leaked one operand-stack slot.

import (
	"context"
	"testing"
)

func TestVerifKF18(t *testing.T) {
	src := `
n := 0
x := [1]
for i := 0; i < 3000; i++ {
  for len(x); false; n = 0 { }
  n = i
}
n
`
	if _, err := Eval(context.Background(), src); err != nil {
		t.Fatalf("iteration count alone exhausted the VM: %v", err)
	}
}
