package risor

// Witness for KF-27 (C05): (*Config).applyOverrides ranged over the overrides map, so with an override of a
// module ("m") and of one of its attributes ("m.x") the outcome depended on Go's map iteration order: either
// the attribute override lands in the replacement module, or it lands in the module that is then replaced.

import (
	"context"
	"testing"

	"github.com/risor-io/risor/object"
)

func TestVerifKF27(t *testing.T) {
	ctx := context.Background()
	vals := map[string]bool{}
	for i := 0; i < 80; i++ {
		repl := object.NewBuiltinsModule("m", map[string]object.Object{"x": object.NewInt(1)})
		v, err := Eval(ctx, `m.x`,
			WithGlobal("m", object.NewBuiltinsModule("m", map[string]object.Object{"x": object.NewInt(0)})),
			WithGlobalOverride("m", repl),
			WithGlobalOverride("m.x", 2))
		if err != nil {
			t.Fatal(err)
		}
		vals[v.Inspect()] = true
	}
	if len(vals) != 1 {
		t.Errorf("evaluating the same source with the same options 80 times gave %d different results: %v", len(vals), vals)
	}
}
