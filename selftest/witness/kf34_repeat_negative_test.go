package risor

// Witness for KF-34 (C19): strings.repeat(s, n) passed a negative n straight to Go's strings.Repeat, which
// panics. The VM recovers the panic at the top of Run, so the evaluation was aborted with "panic: strings:
// negative Repeat count" - not a script error: try() could not catch it.

import (
	"context"
	"strings"
	"testing"
)

func TestVerifKF34(t *testing.T) {
	ctx := context.Background()
	_, err := Eval(ctx, `strings.repeat("a", -1)`)
	if err == nil || strings.Contains(err.Error(), "panic") {
		t.Errorf("strings.repeat(\"a\", -1): want a script error, got %v", err)
	}
	v, err := Eval(ctx, `try(func() { strings.repeat("a", -1) }, func(e) { "caught" })`)
	if err != nil || v.Inspect() != `"caught"` {
		t.Errorf("try() around strings.repeat(\"a\", -1): got %v, %v", v, err)
	}
}
