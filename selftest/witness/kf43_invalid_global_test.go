package risor

import (
	"context"
	"testing"
)

type kf43S struct {
	Fn func(int) int
}

// KF-43 (C08): a Go value that cannot be represented in the script (a struct with a func field) given as a global
// must be rejected with an error by Eval, not with a Go panic.
func TestVerifKF43(t *testing.T) {
	defer func() {
		if r := recover(); r != nil {
			t.Fatalf("Eval panicked instead of returning an error: %v", r)
		}
	}()
	_, err := Eval(context.Background(), `1`, WithGlobals(map[string]any{"s": &kf43S{}}))
	if err == nil {
		t.Fatalf("Eval accepted a global that cannot be converted")
	}
}
