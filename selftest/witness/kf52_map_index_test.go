package risor

import (
	"context"
	"testing"
)

// KF-52 (C16 / C01): list.map hands each callback its own index value. It used to pass one shared index object and
// overwrite it for the next call, so an index kept or returned by the callback changed afterwards.
func TestVerifKF52(t *testing.T) {
	for src, want := range map[string]string{
		`["a", "b", "c"].map(func(i, x) { return i })`:                 `[0, 1, 2]`,
		`seen := []; ["a", "b"].map(func(i, x) { seen.append(i) }); seen`: `[0, 1]`,
		`["a", "b", "c"].map(func(i, x) { return [i, x] })`:            `[[0, "a"], [1, "b"], [2, "c"]]`,
	} {
		v, err := Eval(context.Background(), src)
		if err != nil {
			t.Errorf("%s: %v", src, err)
		} else if v.Inspect() != want {
			t.Errorf("%s = %s, want %s", src, v.Inspect(), want)
		}
	}
}
