package risor

// Witness for KF-37 (C03): a switch whose default case has an empty body ("switch 1 { default: }") made
// compileSwitch pass a nil *ast.Block (as a non-nil ast.Node) to compile; compileBlock dereferenced it and the nil
// pointer panic propagated out of compiler.Compile and risor.Eval to the embedding program.

import (
	"context"
	"testing"
)

func TestVerifKF37(t *testing.T) {
	for _, src := range []string{"switch 1 { default: }", "switch 1 { case 1: default: }", "x := 2; switch x { case 1: 10\ndefault:\n}"} {
		func() {
			defer func() {
				if r := recover(); r != nil {
					t.Errorf("%q: panic escaped Eval: %v", src, r)
				}
			}()
			if v, err := Eval(context.Background(), src); err != nil || v.Inspect() != "nil" {
				t.Errorf("%q: got %v, %v; want nil", src, v, err)
			}
		}()
	}
}
