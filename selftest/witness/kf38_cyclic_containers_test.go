package risor

// Witness for KF-38 (C03): a list or map can contain itself (l := []; l.append(l)). Comparing, searching,
// converting to Go values or marshalling such a value recursed without bound and killed the process with a fatal
// "stack overflow" (which cannot be recovered). The test runs each script in a child process so that the fatal
// error, if it comes back, fails the test instead of killing it.

import (
	"context"
	"os"
	"os/exec"
	"testing"
)

var verifKF38Scripts = []string{
	`l := []; l.append(l); l == l`,
	`l := []; l.append(l); m := []; m.append(m); l == m`,
	`l := []; l.append(l); l in l`,
	`l := []; l.append(l); l.count(l)`,
	`l := [1]; l.append(l); m := [2]; m.append(m); l < m`,
	`m := {}; m["a"] = m; m == m`,
	`l := []; l.append(l); try(func() { json.marshal(l) }, func(e) { "error" })`,
	`l := []; l.append(l); encode(l, "json")`,
}

func TestVerifKF38(t *testing.T) {
	if src := os.Getenv("VERIF_KF38_SRC"); src != "" {
		if _, err := Eval(context.Background(), src); err != nil {
			t.Logf("error (acceptable): %v", err)
		}
		return
	}
	for _, src := range verifKF38Scripts {
		cmd := exec.Command(os.Args[0], "-test.run", "^TestVerifKF38$")
		cmd.Env = append(os.Environ(), "VERIF_KF38_SRC="+src)
		if out, err := cmd.CombinedOutput(); err != nil {
			tail := string(out)
			if len(tail) > 300 {
				tail = tail[:300]
			}
			t.Errorf("%q killed the process: %v\n%s", src, err, tail)
		}
	}
}
