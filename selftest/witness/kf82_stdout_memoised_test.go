package risor

import (
	"context"
	"testing"

	ros "github.com/risor-io/risor/os"
)

// KF-82 (C12, known): os.stdout / os.stdin / os.stderr are DynamicAttr members of the os module object; ResolveAttr
// remembers the first value it resolved, so on a module object that serves more than one evaluation (a host that
// passes Config.Globals() on, a VM reused through WithVM) a later evaluation writes to the stream of the OS the FIRST
// evaluation ran under. This test fails as long as the defect exists.
func TestVerifKF82(t *testing.T) {
	ctx := context.Background()
	globals := NewConfig().Globals()
	outA, outB := ros.NewBufferFile(nil), ros.NewBufferFile(nil)
	osA := ros.NewVirtualOS(ctx, ros.WithStdout(outA))
	osB := ros.NewVirtualOS(ctx, ros.WithStdout(outB))
	run := func(o ros.OS, text string) {
		if _, err := Eval(ctx, `os.stdout.write("`+text+`")`, WithoutDefaultGlobals(), WithGlobals(globals), WithOS(o)); err != nil {
			t.Fatalf("eval: %v", err)
		}
	}
	run(osA, "first")
	run(osB, "second")
	if got := string(outB.Bytes()); got != "second" {
		t.Fatalf("the evaluation under OS B wrote %q to B's stdout and %q to A's (want \"second\" in B)", got, string(outA.Bytes()))
	}
}
