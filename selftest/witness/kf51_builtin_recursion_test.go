package risor

import (
	"context"
	"os"
	"os/exec"
	"strings"
	"testing"
)

// KF-51 (C03): a list that holds its own bound each/map/filter builtin must not take the process down: builtins
// called by builtins nest on the Go stack only (no VM frame, so no frame limit) and used to recurse until the runtime
// ended the process with "fatal error: stack overflow". Runs the scripts in a child process.
func TestVerifKF51(t *testing.T) {
	if src := os.Getenv("KF51_SRC"); src != "" {
		_, err := Eval(context.Background(), src)
		if err == nil {
			os.Exit(3)
		}
		os.Exit(0)
	}
	for _, m := range []string{"each", "map", "filter"} {
		cmd := exec.Command(os.Args[0], "-test.run", "^TestVerifKF51$")
		cmd.Env = append(os.Environ(), "KF51_SRC=l := []; f := l."+m+"; l.append(f); f(f)")
		out, err := cmd.CombinedOutput()
		if err != nil {
			msg := string(out)
			if i := strings.Index(msg, "\n"); i > 0 {
				msg = msg[:i]
			}
			t.Errorf("l.%s recursion: child process ended with %v: %s", m, err, msg)
		}
	}
}
