package risor

import (
	"context"
	"testing"
)

// KF-72 (C19): bytes.contains_rune / bytes.index_rune accept any single character. They required a one-byte argument,
// so a non-ASCII character - for which Go's bytes.ContainsRune / bytes.IndexRune are defined - was rejected.
func TestVerifKF72(t *testing.T) {
	for src, want := range map[string]string{
		`bytes.contains_rune(byte_slice("héllo"), "é")`: `true`,
		`bytes.index_rune(byte_slice("héllo"), "é")`:    `1`,
		`bytes.index_rune(byte_slice("héllo"), "l")`:    `3`,
		`byte_slice("abc").contains_rune("d")`:          `false`,
	} {
		v, err := Eval(context.Background(), src)
		if err != nil {
			t.Errorf("%s: %v", src, err)
		} else if v.Inspect() != want {
			t.Errorf("%s = %s, want %s", src, v.Inspect(), want)
		}
	}
	if _, err := Eval(context.Background(), `byte_slice("abc").index_rune("bc")`); err == nil {
		t.Errorf("two characters must be rejected")
	}
}
