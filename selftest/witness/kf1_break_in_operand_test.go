package risor

// Witness for KF-1 (C04): break/continue compiled with operands on the stack leak those operands.

import (
	"context"
	"testing"
)

func TestVerifKF1(t *testing.T) {
	src := `
n := 0
for i := 0; i < 3000; i++ {
  for j := 0; j < 2; j++ {
    x := [7, if j > 0 { break }]
  }
  n = i
}
n
`
	if _, err := Eval(context.Background(), src); err != nil {
		t.Fatalf("iteration count alone exhausted the VM: %v", err)
	}
}
