package object

// Witnesses for KF-14 / KF-15 / KF-26 (C08).
//  KF-14: reading a struct field whose Go type is a *named* type of scalar kind panics in the scalar
//         converter's unchecked type assertion.
//  KF-15: a script integer that does not fit the Go parameter type is silently wrapped.
//  KF-26: a uint64 above MaxInt64 arrives in the script as a negative integer.

import (
	"context"
	"math"
	"reflect"
	"testing"
)

type verifLevel int

type verifHolder struct {
	L verifLevel
	U uint64
}

func (h *verifHolder) Take8(x int8) int { return int(x) }

func TestVerifKF14(t *testing.T) {
	defer func() {
		if r := recover(); r != nil {
			t.Fatalf("conversion of a named scalar type panicked: %v", r)
		}
	}()
	conv, err := NewTypeConverter(reflect.TypeOf(verifLevel(3)))
	if err != nil {
		return // rejected cleanly: acceptable
	}
	if _, err := conv.From(verifLevel(3)); err != nil {
		return
	}
}

func TestVerifKF15(t *testing.T) {
	conv, err := NewTypeConverter(reflect.TypeOf(int8(0)))
	if err != nil {
		t.Fatal(err)
	}
	v, err := conv.To(NewInt(300))
	if err != nil {
		return // rejected: acceptable
	}
	if int64(v.(int8)) != 300 {
		t.Fatalf("script value 300 reached Go as int8(%d) without an error", v.(int8))
	}
}

func TestVerifKF26(t *testing.T) {
	conv, err := NewTypeConverter(reflect.TypeOf(uint64(0)))
	if err != nil {
		t.Fatal(err)
	}
	o, err := conv.From(uint64(math.MaxUint64))
	if err != nil {
		return
	}
	if i, ok := o.(*Int); ok && i.Value() < 0 {
		t.Fatalf("uint64 max arrived in the script as %d", i.Value())
	}
	_ = context.Background()
}
