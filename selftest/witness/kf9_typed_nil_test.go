package risor

// Witness for KF-9 (C03): parseStatement wrapped a nil *ast.Return / *ast.Const in a non-nil ast.Node
// (a typed nil); the statement list then contained a nil node that was dereferenced later.

import (
	"context"
	"testing"
)

func TestVerifKF9(t *testing.T) {
	for _, src := range []string{"return if", "const x = if", "func f() { return if }", "x := 1\nreturn if"} {
		func() {
			defer func() {
				if r := recover(); r != nil {
					t.Errorf("Eval(%q) panicked: %v", src, r)
				}
			}()
			Eval(context.Background(), src)
		}()
	}
}
