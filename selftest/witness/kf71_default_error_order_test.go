package risor

import (
	"context"
	"testing"
)

// KF-71 (C05): the compile error for unsupported parameter defaults names the first one in source order. compileFunc
// ranged over the Go map of defaults, so the reported default changed from run to run.
func TestVerifKF71(t *testing.T) {
	src := `func f(a=[1], b={}, c=1+2, d=[2], e={1}) { return 1 }; f()`
	first := ""
	for i := 0; i < 200; i++ {
		_, err := Eval(context.Background(), src)
		if err == nil {
			t.Fatalf("expected a compile error")
		}
		if i == 0 {
			first = err.Error()
		} else if err.Error() != first {
			t.Fatalf("run %d: error %q differs from the first run's %q", i, err.Error(), first)
		}
	}
}
