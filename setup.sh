#!/bin/sh
# Builds the verifier from files on disk only (x/tools v0.29.0 comes from the module cache).
set -e
export GOFLAGS=-mod=mod GOPROXY=off GOSUMDB=off GOTOOLCHAIN=local GOWORK=off
mkdir -p /verif/bin
cd /verif/govc && go build -o /verif/bin/govc .
