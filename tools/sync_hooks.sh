#!/bin/sh
# Mirrors /verif/contracts/** (contract comments and proof harnesses, all '//go:build verif') into /repo and commits
# them as one tag-guarded hook commit. With the guard off (no -tags verif) the files are not compiled.
set -e
cd /verif/contracts
find . -name '*_verif.go' | while read f; do
  mkdir -p "/repo/$(dirname "$f")"
  cp "$f" "/repo/$f"
done
cd /repo
git add -A -- '*_verif.go'
if git diff --cached --quiet; then echo "hook files already up to date"; exit 0; fi
git commit -q -m "verif: contract files and proof harnesses (build tag verif)

Comment-only contracts (//@ clauses) and small proof-harness functions used by
/verif/govc. Every file is guarded by '//go:build verif': without the tag
nothing here is compiled."
git rev-parse HEAD >> /verif/tools/hook_commits.txt
echo "hook commit $(git log --oneline -1)"
