#!/bin/sh
# usage: confirm_seed.sh <id>   (worktree /tmp/seedwt_<id> with the change applied, deliverables in /tmp/seedout_<id>)
# Confirms a seeded change independently of the agent that wrote it, then stores it under /verif/seeded/<id>/.
export GOWORK=off GOFLAGS=-mod=mod GOPROXY=off GOSUMDB=off GOTOOLCHAIN=local
id=$1; wt=/tmp/seedwt_$id; out=/tmp/seedout_$id
[ -f $out/patch.diff ] && [ -f $out/demo_test.go.txt ] && [ -f $out/meta.json ] || { echo "deliverables missing"; exit 2; }
pkg=$(python3 -c "import json;print(json.load(open('$out/meta.json'))['demo']['package_dir'])")
cd $wt || exit 2
git checkout -q -- . ; git clean -q -fd -e go.work -e go.work.sum
grep -q '_test.go' $out/patch.diff && echo "WARNING: patch touches test files"
git apply $out/patch.diff || { echo "patch does not apply"; exit 2; }
go build ./... || { echo "BUILD FAILS"; exit 1; }
cp $out/demo_test.go.txt $pkg/zz_seed_demo_test.go
if go test -vet=off -count=1 -timeout 300s -run TestSeedDemo ./$pkg/ > $out/confirm_with.txt 2>&1; then echo "demo PASSES with the change (bad)"; rm -f $pkg/zz_seed_demo_test.go; exit 1; fi
echo "with change: $(grep -m1 -- '--- FAIL\|panic\|FAIL' $out/confirm_with.txt)"
git apply -R $out/patch.diff
if ! go test -vet=off -count=1 -timeout 300s -run TestSeedDemo ./$pkg/ > $out/confirm_without.txt 2>&1; then echo "demo FAILS without the change (bad)"; tail -5 $out/confirm_without.txt; rm -f $pkg/zz_seed_demo_test.go; exit 1; fi
echo "without change: $(tail -1 $out/confirm_without.txt)"
rm -f $pkg/zz_seed_demo_test.go
git apply $out/patch.diff
if ! go test -vet=off -count=1 -timeout 900s ./... > $out/confirm_suite.txt 2>&1; then echo "SUITE FAILS with the change"; grep -m5 "FAIL" $out/confirm_suite.txt; exit 1; fi
echo "suite with change: $(grep -c '^ok' $out/confirm_suite.txt) packages ok, $(grep -c FAIL $out/confirm_suite.txt) FAIL lines"
mkdir -p /verif/seeded/$id
cp $out/patch.diff $out/demo_test.go.txt /verif/seeded/$id/
python3 - "$id" <<'PY'
import json,sys
i=sys.argv[1]; m=json.load(open(f'/tmp/seedout_{i}/meta.json'))
m['confirmed_by_main']=[open(f'/tmp/seedout_{i}/confirm_with.txt').read()[-600:], 'without change: '+open(f'/tmp/seedout_{i}/confirm_without.txt').read()[-200:], 'suite with change: '+str(open(f'/tmp/seedout_{i}/confirm_suite.txt').read().count('\nok'))+' packages ok, no FAIL']
json.dump(m,open(f'/verif/seeded/{i}/meta.json','w'),indent=1)
PY
echo "stored /verif/seeded/$id"
