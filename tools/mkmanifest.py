#!/usr/bin/env python3
"""Regenerates /verif/MANIFEST.json from the per-property table below."""
import json, os
props = [json.loads(l) for l in open('/verif/properties.jsonl')]
base = json.load(open('/root/.vp/BASELINE.json'))['cmd'] if os.path.exists('/root/.vp/BASELINE.json') else ""
TECH = "contract-based deductive verification (govc: VCs generated from go/ssa of the current tree, contracts in //@ comments, discharged by z3 5.1 / cvc5 1.0.3 / z3 4.8.12)"
# property -> (claim text, level note)
CLAIMED = json.load(open('/verif/tools/claims_table.json'))
NA = json.load(open('/verif/tools/na_table.json'))
checks = []
for p in props:
    i = p['id']
    if i in CLAIMED:
        c = CLAIMED[i]
        checks.append({
            "property_id": i,
            "quick_cmd": "sh /verif/check.sh %s quick" % i,
            "thorough_cmd": "sh /verif/check.sh %s thorough" % i,
            "evidence_file": "/verif/evidence/%s.json" % i,
            "replay_cmd_template": "cat {path}",
            "engine": "govc",
            "level_claimed": {"category": "proof", "text": c["text"], "design_ref": c.get("design_ref", "DESIGN.md §3 " + i)},
            "level_note": c["note"],
            "technique": TECH,
        })
na = [{"property_id": p['id'], "reason": NA.get(p['id'], "contracts for this property are not built in this revision")} for p in props if p['id'] not in CLAIMED]
hooks_commits = []
if os.path.exists('/verif/tools/hook_commits.txt'):
    hooks_commits = [l.strip() for l in open('/verif/tools/hook_commits.txt') if l.strip()]
m = {"version": 1,
     "setup_cmd": "sh /verif/setup.sh",
     "hooks": {"guard": "verif",
               "enable": "the contract files <pkg>/contracts*_verif.go (comment-only //@ contracts plus small proof-harness functions) are '//go:build verif' and are mirrored into /repo by the hook commit(s) listed under source_commits (sh /verif/tools/sync_hooks.sh); govc loads /repo with -tags=verif; /verif/contracts is the maintained copy: a repository copy that is missing or differs is replaced through the loader overlay and the fact is listed in the evidence assumptions",
               "baseline_off_cmd": base, "source_commits": hooks_commits, "add_only": True},
     "engines": [{"name": "govc", "path": "/verif/govc", "serves_properties": sorted(CLAIMED),
                  "kind_free_text": "VC generator for Go (go/ssa -> SMT-LIB) with Gobra-style comment contracts, solver race, counterexample replay through go test -overlay"}],
     "checks": checks,
     "not_applicable": na,
     "notes": "see DESIGN.md; known findings in /verif/known_findings.json; claims (obligation ids) in /verif/claims/"}
json.dump(m, open('/verif/MANIFEST.json', 'w'), indent=1)
print("claimed:", sorted(CLAIMED), "na:", len(na))
