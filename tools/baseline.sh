#!/bin/sh
# Runs the pinned baseline suite of /repo (command from /root/.vp/BASELINE.json) and compares with stable_pass.
# Do NOT set GOSUMDB=off here: it breaks the toolchain auto-switch of /repo/go.work.
export GOPROXY=off
OUT=${1:-/var/tmp/bl.json}
bash -c 'for m in $(cat /w/out/gomods.txt); do MF=$(cd /repo/$m && . /w/out/goenv.sh && gomodflag); (cd /repo/$m && go test $MF -json -vet=off -count=1 -timeout 25m ./... 2>/dev/null); done' > "$OUT"
python3 - "$OUT" <<'PY'
import json,sys
base=json.load(open('/root/.vp/BASELINE.json'))
sp=set(base['stable_pass'])
res={}
for l in open(sys.argv[1]):
    try: e=json.loads(l)
    except Exception: continue
    if e.get('Action') in('pass','fail') and e.get('Test'):
        res[e['Package']+'::'+e['Test']]=e['Action']
bad=sorted(t for t in sp if res.get(t)!='pass')
print("baseline: %d expected, %d pass, %d not passing"%(len(sp),len(sp)-len(bad),len(bad)))
for t in bad[:40]: print("  NOT PASSING",t)
sys.exit(1 if bad else 0)
PY
