#!/bin/sh
# Copies the contract files (comment-only files and proof harnesses, all `//go:build verif`) from /verif/contracts
# into /repo and commits them there as one hook commit. /verif/contracts is the working copy; /repo's copy is what
# a fresh checkout of /repo carries. Nothing but *_verif.go files is touched.
set -e
cd /verif/contracts
find . -name '*_verif.go' | while read f; do
  head -5 "$f" | grep -q '^//go:build verif' || { echo "missing build tag: $f"; exit 1; }
  mkdir -p "/repo/$(dirname "$f")"; cp "$f" "/repo/$f"
done
cd /repo
git add -A -- $(git ls-files -o -m --exclude-standard | grep '_verif.go$') 2>/dev/null || true
if git diff --cached --quiet; then echo "contracts in /repo already up to date"; else
  git commit -q -m "verif: contract files and proof harnesses (build tag verif)" && git log --oneline -1; fi
