#!/bin/sh
# Kept as an alias: the copy into /repo, the hook commit and its recording are done by sync_hooks.sh.
exec sh /verif/tools/sync_hooks.sh
