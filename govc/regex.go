package main

import (
	"fmt"
	"regexp/syntax"
	"strings"
)

// regexToSMT translates a Go regular expression (as used with MatchString) into an SMT-LIB RegLan term such
// that MatchString(s) <=> (str.in_re s <term>). Supported: literals, character classes, ., concatenation,
// alternation, * + ? {n,m}, groups, and the anchors ^ / $ at the two ends of the expression (unanchored ends
// are padded with re.all). Anything else is reported as unsupported.
func regexToSMT(expr string) (string, error) {
	re, err := syntax.Parse(expr, syntax.Perl)
	if err != nil {
		return "", err
	}
	re = re.Simplify()
	subs := []*syntax.Regexp{re}
	if re.Op == syntax.OpConcat {
		subs = re.Sub
	}
	begin, end := false, false
	if len(subs) > 0 && subs[0].Op == syntax.OpBeginText {
		begin = true
		subs = subs[1:]
	}
	if len(subs) > 0 && subs[len(subs)-1].Op == syntax.OpEndText {
		end = true
		subs = subs[:len(subs)-1]
	}
	var parts []string
	if !begin {
		parts = append(parts, "re.all")
	}
	for _, s := range subs {
		t, err := regexNode(s)
		if err != nil {
			return "", err
		}
		parts = append(parts, t)
	}
	if !end {
		parts = append(parts, "re.all")
	}
	return concatRe(parts), nil
}

func concatRe(parts []string) string {
	switch len(parts) {
	case 0:
		return `(str.to_re "")`
	case 1:
		return parts[0]
	}
	return "(re.++ " + strings.Join(parts, " ") + ")"
}

func smtStringLit(s string) string {
	var b strings.Builder
	b.WriteByte('"')
	for _, r := range s {
		switch {
		case r == '"':
			b.WriteString(`""`)
		case r < 32 || r > 126 || r == '\\':
			fmt.Fprintf(&b, `\u{%x}`, r)
		default:
			b.WriteRune(r)
		}
	}
	b.WriteByte('"')
	return b.String()
}

func regexNode(re *syntax.Regexp) (string, error) {
	switch re.Op {
	case syntax.OpEmptyMatch:
		return `(str.to_re "")`, nil
	case syntax.OpLiteral:
		if re.Flags&syntax.FoldCase != 0 {
			return "", fmt.Errorf("case-insensitive literal unsupported")
		}
		return "(str.to_re " + smtStringLit(string(re.Rune)) + ")", nil
	case syntax.OpCharClass:
		var alts []string
		for i := 0; i+1 < len(re.Rune); i += 2 {
			lo, hi := re.Rune[i], re.Rune[i+1]
			if lo == hi {
				alts = append(alts, "(str.to_re "+smtStringLit(string(lo))+")")
			} else {
				alts = append(alts, fmt.Sprintf("(re.range %s %s)", smtStringLit(string(lo)), smtStringLit(string(hi))))
			}
		}
		switch len(alts) {
		case 0:
			return "re.none", nil
		case 1:
			return alts[0], nil
		}
		return "(re.union " + strings.Join(alts, " ") + ")", nil
	case syntax.OpAnyChar:
		return "re.allchar", nil
	case syntax.OpAnyCharNotNL:
		return `(re.diff re.allchar (str.to_re "\u{a}"))`, nil
	case syntax.OpCapture:
		return regexNode(re.Sub[0])
	case syntax.OpStar, syntax.OpPlus, syntax.OpQuest:
		s, err := regexNode(re.Sub[0])
		if err != nil {
			return "", err
		}
		return fmt.Sprintf("(%s %s)", map[syntax.Op]string{syntax.OpStar: "re.*", syntax.OpPlus: "re.+", syntax.OpQuest: "re.opt"}[re.Op], s), nil
	case syntax.OpRepeat:
		s, err := regexNode(re.Sub[0])
		if err != nil {
			return "", err
		}
		if re.Max < 0 {
			return fmt.Sprintf("(re.++ ((_ re.^ %d) %s) (re.* %s))", re.Min, s, s), nil
		}
		return fmt.Sprintf("((_ re.loop %d %d) %s)", re.Min, re.Max, s), nil
	case syntax.OpConcat, syntax.OpAlternate:
		var parts []string
		for _, sub := range re.Sub {
			t, err := regexNode(sub)
			if err != nil {
				return "", err
			}
			parts = append(parts, t)
		}
		if re.Op == syntax.OpConcat {
			return concatRe(parts), nil
		}
		return "(re.union " + strings.Join(parts, " ") + ")", nil
	}
	return "", fmt.Errorf("regular expression operator %s unsupported", re.Op)
}
