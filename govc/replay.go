package main

// Replay of solver counterexamples against the real code: the model's inputs are turned into a Go
// test that is injected into the real package with `go test -overlay` (nothing is written to the
// repository); the observed outputs are then substituted back into the failed obligation.

import (
	"encoding/json"
	"fmt"
	"go/types"
	"math"
	"os"
	"os/exec"
	"path/filepath"
	"regexp"
	"strconv"
	"strings"
	"time"
)

func replayViolation(p *Program, repo string, u *UnitResult, o *Obl, id, why, path string) string {
	var b strings.Builder
	fmt.Fprintf(&b, "obligation: %s\nreason: %s\n", id, why)
	suffix := "no-failing-input-found"
	if o != nil {
		fmt.Fprintf(&b, "kind: %s\nwhere: %s\nsolver: %s (%s, %.2fs)\n", o.Kind, o.Where, o.Solver, o.Status, o.Secs)
		fmt.Fprintf(&b, "goal: %s\n", o.Goal)
		if len(o.Model) > 0 {
			b.WriteString("model:\n")
			for k, v := range o.Model {
				fmt.Fprintf(&b, "  %s = %s\n", k, v)
			}
		}
		fmt.Fprintf(&b, "solver output:\n%s\n", firstLines(o.Output, 40))
		if o.Status == "sat" && u != nil && len(o.Model) > 0 {
			ok, log := replayOnRealCode(p, repo, u, o)
			b.WriteString("\n--- replay against the real code ---\n")
			b.WriteString(log)
			if ok {
				suffix = ""
				b.WriteString("\nREPRODUCED on the real code\n")
			} else {
				b.WriteString("\nnot reproduced on the real code (or replay not applicable)\n")
			}
		}
	}
	if suffix != "" {
		b.WriteString("\nno-failing-input-found\n")
	}
	os.WriteFile(path, []byte(b.String()), 0o644)
	return suffix
}

var bvRe = regexp.MustCompile(`^#x([0-9a-fA-F]+)$`)
var bvBin = regexp.MustCompile(`^#b([01]+)$`)

func parseBV(s string) (uint64, int, bool) {
	s = strings.TrimSpace(s)
	if m := bvRe.FindStringSubmatch(s); m != nil {
		v, err := strconv.ParseUint(m[1], 16, 64)
		return v, len(m[1]) * 4, err == nil
	}
	if m := bvBin.FindStringSubmatch(s); m != nil {
		v, err := strconv.ParseUint(m[1], 2, 64)
		return v, len(m[1]), err == nil
	}
	if strings.HasPrefix(s, "(_ bv") {
		var v uint64
		var w int
		if _, err := fmt.Sscanf(s, "(_ bv%d %d)", &v, &w); err == nil {
			return v, w, true
		}
	}
	return 0, 0, false
}

func parseSMTInt(s string) (int64, bool) {
	s = strings.TrimSpace(s)
	if strings.HasPrefix(s, "(-") {
		inner := strings.TrimSpace(strings.TrimSuffix(strings.TrimPrefix(s, "(-"), ")"))
		v, err := strconv.ParseUint(inner, 10, 64)
		if err != nil {
			return 0, false
		}
		return -int64(v), true
	}
	v, err := strconv.ParseInt(s, 10, 64)
	return v, err == nil
}

// parseFP parses an SMT-LIB floating point value to float64 bits.
func parseFP(s string) (uint64, bool) {
	s = strings.TrimSpace(s)
	switch {
	case strings.HasPrefix(s, "(_ +zero"):
		return 0, true
	case strings.HasPrefix(s, "(_ -zero"):
		return 1 << 63, true
	case strings.HasPrefix(s, "(_ +oo"):
		return math.Float64bits(math.Inf(1)), true
	case strings.HasPrefix(s, "(_ -oo"):
		return math.Float64bits(math.Inf(-1)), true
	case strings.HasPrefix(s, "(_ NaN"):
		return math.Float64bits(math.NaN()), true
	case strings.HasPrefix(s, "(fp "):
		parts := strings.Fields(strings.TrimSuffix(strings.TrimPrefix(s, "(fp "), ")"))
		if len(parts) != 3 {
			return 0, false
		}
		sg, _, ok1 := parseBV(parts[0])
		ex, we, ok2 := parseBV(parts[1])
		mt, wm, ok3 := parseBV(parts[2])
		if !ok1 || !ok2 || !ok3 || we != 11 || wm != 52 {
			return 0, false
		}
		return sg<<63 | ex<<52 | mt, true
	}
	return 0, false
}

// smtStringToGo converts an SMT-LIB string literal to a Go string literal.
func smtStringToGo(s string) (string, bool) {
	s = strings.TrimSpace(s)
	if len(s) < 2 || s[0] != '"' || s[len(s)-1] != '"' {
		return "", false
	}
	s = s[1 : len(s)-1]
	s = strings.ReplaceAll(s, `""`, `"`)
	var out []byte
	for i := 0; i < len(s); i++ {
		if s[i] == '\\' && i+2 < len(s) && s[i+1] == 'u' && s[i+2] == '{' {
			j := strings.IndexByte(s[i:], '}')
			if j > 0 {
				v, err := strconv.ParseUint(s[i+3:i+j], 16, 32)
				if err == nil {
					if v > 255 {
						out = append(out, []byte(string(rune(v)))...)
					} else {
						out = append(out, byte(v))
					}
					i += j
					continue
				}
			}
		}
		if s[i] == '\\' && i+5 < len(s) && s[i+1] == 'u' {
			v, err := strconv.ParseUint(s[i+2:i+6], 16, 32)
			if err == nil {
				out = append(out, byte(v))
				i += 5
				continue
			}
		}
		out = append(out, s[i])
	}
	return strconv.Quote(string(out)), true
}

func goScalarLit(e *Enc, val string, t types.Type) (string, bool) {
	tn := types.TypeString(t, func(p *types.Package) string { return p.Name() })
	// in-package tests: strip the package qualifier of the unit's own package
	if e.fn.Pkg != nil {
		tn = strings.ReplaceAll(tn, e.fn.Pkg.Pkg.Name()+".", "")
	}
	switch {
	case isBool(t):
		if val == "true" || val == "false" {
			return val, true
		}
	case isInteger(t):
		b := t.Underlying().(*types.Basic)
		w, signed := intWidth(b)
		if v, _, ok := parseBV(val); ok {
			if signed {
				sv := int64(v)
				if w < 64 && v&(1<<(w-1)) != 0 {
					sv = int64(v) - (1 << w)
				}
				return fmt.Sprintf("%s(%d)", tn, sv), true
			}
			return fmt.Sprintf("%s(%d)", tn, v), true
		}
		if v, ok := parseSMTInt(val); ok {
			return fmt.Sprintf("%s(%d)", tn, v), true
		}
	case isFloat(t):
		if bits, ok := parseFP(val); ok {
			if b := t.Underlying().(*types.Basic); b.Kind() == types.Float32 {
				return "", false
			}
			return fmt.Sprintf("%s(math.Float64frombits(0x%x))", tn, bits), true
		}
	case isString(t):
		if s, ok := smtStringToGo(val); ok {
			return fmt.Sprintf("%s(%s)", tn, s), true
		}
	}
	return "", false
}

var ifaceVal = regexp.MustCompile(`^\(mkIface\s+(\(- \d+\)|-?\d+)\s+(\(- \d+\)|-?\d+)`)

// objectLit builds a Go expression for an object of pointer-to-struct type whose scalar fields are given by the model.
func objectLit(e *Enc, pt types.Type, ref string, model map[string]string, fieldTerm func(comp, ref string) string) (string, bool) {
	ptr, ok := pt.(*types.Pointer)
	if !ok {
		return "", false
	}
	named, ok := ptr.Elem().(*types.Named)
	if !ok {
		return "", false
	}
	st, ok := named.Underlying().(*types.Struct)
	if !ok {
		return "", false
	}
	name := named.Obj().Name()
	if named.Obj().Pkg() != e.fn.Pkg.Pkg {
		return "", false
	}
	var parts []string
	for i := 0; i < st.NumFields(); i++ {
		f := st.Field(i)
		if !(isInteger(f.Type()) || isFloat(f.Type()) || isString(f.Type()) || isBool(f.Type())) {
			continue
		}
		term := fieldTerm(fieldComp(named, f.Name()), ref)
		val, ok := model[term]
		if !ok {
			continue
		}
		lit, ok := goScalarLit(e, val, f.Type())
		if !ok {
			return "", false
		}
		parts = append(parts, fmt.Sprintf("%s: %s", f.Name(), lit))
	}
	switch name {
	case "Bool":
		if len(parts) == 1 && strings.HasSuffix(parts[0], "true") {
			return "True", true
		}
		return "False", true
	case "NilType":
		return "Nil", true
	}
	return fmt.Sprintf("&%s{%s}", name, strings.Join(parts, ", ")), true
}

func replayOnRealCode(p *Program, repo string, u *UnitResult, o *Obl) (bool, string) {
	e := u.Enc
	fn := e.fn
	if fn.Pkg == nil {
		return false, "no package"
	}
	var log strings.Builder
	fieldTerm := func(comp, prm string) string {
		return fmt.Sprintf("show.%s.%s", prm, comp)
	}
	// build arguments
	var args []string
	var fix []string // SMT constraints pinning the inputs
	for _, prm := range fn.Params {
		term := "|p." + prm.Name() + "|"
		val, ok := o.Model[strings.Trim(term, "|")]
		if !ok {
			return false, "model has no value for " + prm.Name()
		}
		fix = append(fix, fmt.Sprintf("(assert (= %s %s))", term, val))
		t := prm.Type()
		switch {
		case isBool(t) || isInteger(t) || isFloat(t) || isString(t):
			lit, ok := goScalarLit(e, val, t)
			if !ok {
				return false, fmt.Sprintf("cannot build a Go literal for %s = %s", prm.Name(), val)
			}
			args = append(args, lit)
		case isIface(t):
			m := ifaceVal.FindStringSubmatch(val)
			if m == nil {
				return false, "unparsed interface value " + val
			}
			tag, _ := parseSMTInt(m[1])
			if tag == 0 {
				args = append(args, "nil")
				continue
			}
			dt, ok := e.tagTypes[int(tag)]
			if !ok {
				return false, fmt.Sprintf("model uses an unknown dynamic type tag %d", tag)
			}
			lit, ok := objectLit(e, dt, prm.Name(), o.Model, fieldTerm)
			if !ok {
				return false, "cannot build object of type " + dt.String()
			}
			for k, v := range o.Model {
				if strings.HasPrefix(k, "show."+prm.Name()+".") {
					fix = append(fix, fmt.Sprintf("(assert (= |%s| %s))", k, v))
				}
			}
			args = append(args, lit)
		case isPointerTo(t):
			lit, ok := objectLit(e, t, prm.Name(), o.Model, fieldTerm)
			if !ok {
				return false, "cannot build object of type " + t.String()
			}
			for k, v := range o.Model {
				if strings.HasPrefix(k, "show."+prm.Name()+".") {
					fix = append(fix, fmt.Sprintf("(assert (= |%s| %s))", k, v))
				}
			}
			args = append(args, lit)
		default:
			return false, "parameter type not replayable: " + t.String()
		}
	}
	// the call expression
	var call string
	if fn.Signature.Recv() != nil {
		call = fmt.Sprintf("(%s).%s(%s)", args[0], fn.Name(), strings.Join(args[1:], ", "))
	} else {
		call = fmt.Sprintf("%s(%s)", fn.Name(), strings.Join(args, ", "))
	}
	nres := fn.Signature.Results().Len()
	var lhs []string
	for i := 0; i < nres; i++ {
		lhs = append(lhs, fmt.Sprintf("r%d", i))
	}
	var body strings.Builder
	extra := ""
	for _, imp := range fn.Pkg.Pkg.Imports() {
		if imp.Name() != "fmt" && imp.Name() != "math" && imp.Name() != "testing" && strings.Contains(call, imp.Name()+".") {
			extra += fmt.Sprintf("\t%q\n", imp.Path())
		}
	}
	fmt.Fprintf(&body, "package %s\n\nimport (\n\t\"fmt\"\n\t\"math\"\n\t\"testing\"\n%s)\n\nvar _ = math.Pi\n\n", fn.Pkg.Pkg.Name(), extra)
	body.WriteString("func TestVerifReplay(t *testing.T) {\n\tdefer func() {\n\t\tif r := recover(); r != nil {\n\t\t\tfmt.Printf(\"VERIF-PANIC %v\\n\", r)\n\t\t}\n\t}()\n")
	if nres > 0 {
		fmt.Fprintf(&body, "\t%s := %s\n", strings.Join(lhs, ", "), call)
	} else {
		fmt.Fprintf(&body, "\t%s\n", call)
	}
	for i := 0; i < nres; i++ {
		rt := fn.Signature.Results().At(i).Type()
		switch {
		case isFloat(rt):
			fmt.Fprintf(&body, "\tfmt.Printf(\"VERIF-RESULT %d float %%d\\n\", math.Float64bits(float64(r%d)))\n", i, i)
		case isInteger(rt):
			fmt.Fprintf(&body, "\tfmt.Printf(\"VERIF-RESULT %d int %%d\\n\", r%d)\n", i, i)
		case isBool(rt):
			fmt.Fprintf(&body, "\tfmt.Printf(\"VERIF-RESULT %d bool %%v\\n\", r%d)\n", i, i)
		case isString(rt):
			fmt.Fprintf(&body, "\tfmt.Printf(\"VERIF-RESULT %d string %%q\\n\", string(r%d))\n", i, i)
		case isIface(rt) || isPointerTo(rt):
			fmt.Fprintf(&body, "\tfmt.Printf(\"VERIF-RESULT %d nil %%v\\n\", r%d == nil)\n", i, i)
		default:
			fmt.Fprintf(&body, "\t_ = r%d\n\tfmt.Printf(\"VERIF-RESULT %d opaque\\n\")\n", i, i)
		}
	}
	body.WriteString("\tfmt.Println(\"VERIF-DONE\")\n}\n")
	fmt.Fprintf(&log, "test:\n%s\n", body.String())

	scratch, err := os.MkdirTemp("/var/tmp", "govc-replay-")
	if err != nil {
		return false, err.Error()
	}
	defer os.RemoveAll(scratch)
	pkgDir := filepath.Join(repo, strings.TrimPrefix(strings.TrimPrefix(fn.Pkg.Pkg.Path(), modulePath), "/"))
	testFile := filepath.Join(scratch, "zz_verif_replay_test.go")
	os.WriteFile(testFile, []byte(body.String()), 0o644)
	ov := map[string]map[string]string{"Replace": {filepath.Join(pkgDir, "zz_verif_replay_test.go"): testFile}}
	for _, rel := range p.overlayUsed {
		ov["Replace"][filepath.Join(repo, rel)] = filepath.Join(verifRoot(), "contracts", rel)
	}
	ovb, _ := json.Marshal(ov)
	ovFile := filepath.Join(scratch, "overlay.json")
	os.WriteFile(ovFile, ovb, 0o644)
	cmd := exec.Command("go", "test", "-tags", "verif", "-overlay", ovFile, "-vet=off", "-count=1", "-timeout", "60s", "-run", "^TestVerifReplay$", "-v", ".")
	cmd.Dir = pkgDir
	cmd.Env = append(os.Environ(), "GOWORK=off", "GOFLAGS=-mod=mod", "GOPROXY=off", "GOSUMDB=off", "GOCACHE="+goCache())
	done := make(chan struct{})
	var out []byte
	go func() { out, _ = cmd.CombinedOutput(); close(done) }()
	select {
	case <-done:
	case <-time.After(180 * time.Second):
		cmd.Process.Kill()
		return false, log.String() + "replay timed out"
	}
	fmt.Fprintf(&log, "go test output:\n%s\n", firstLines(string(out), 30))
	outs := string(out)
	if strings.Contains(outs, "VERIF-PANIC") {
		if o.Kind == "safety" {
			return true, log.String() + "the real code panics on the model input"
		}
		return false, log.String() + "the real code panicked"
	}
	if !strings.Contains(outs, "VERIF-DONE") {
		return false, log.String() + "replay test did not complete"
	}
	if o.Kind == "safety" {
		return false, log.String() + "no panic observed"
	}
	if o.Kind != "post" {
		return false, log.String() + "obligation kind " + o.Kind + " has no observable at the function boundary"
	}
	// substitute observed results
	for _, ln := range strings.Split(outs, "\n") {
		ln = strings.TrimSpace(ln)
		if !strings.HasPrefix(ln, "VERIF-RESULT ") {
			continue
		}
		f := strings.SplitN(ln, " ", 4)
		if len(f) < 3 {
			continue
		}
		i, _ := strconv.Atoi(f[1])
		term := fmt.Sprintf("|result%d|", i)
		rt := fn.Signature.Results().At(i).Type()
		switch f[2] {
		case "int":
			fix = append(fix, fmt.Sprintf("(assert (= %s %s))", term, e.intLit(rt, f[3])))
		case "bool":
			fix = append(fix, fmt.Sprintf("(assert (= %s %s))", term, f[3]))
		case "float":
			bits, _ := strconv.ParseUint(f[3], 10, 64)
			fix = append(fix, fmt.Sprintf("(assert (= %s ((_ to_fp 11 53) #x%016x)))", term, bits))
		case "string":
			s, err := strconv.Unquote(f[3])
			if err == nil {
				fix = append(fix, fmt.Sprintf("(assert (= %s %s))", term, smtString(s)))
			}
		case "nil":
			isNil := f[3] == "true"
			var c string
			if isIface(rt) {
				c = fmt.Sprintf("(= (i_tag %s) 0)", term)
			} else {
				c = fmt.Sprintf("(= %s 0)", term)
			}
			if !isNil {
				c = "(not " + c + ")"
			}
			fix = append(fix, "(assert "+c+")")
		}
	}
	src := u.smtFile(o, false)
	src = strings.Replace(src, "(check-sat)", strings.Join(fix, "\n")+"\n(check-sat)", 1)
	// result terms may have been inlined by define(); make sure they exist
	for i := 0; i < nres; i++ {
		if !strings.Contains(src, fmt.Sprintf("|result%d|", i)) {
			return false, log.String() + "result term not named in the VC"
		}
	}
	gf := filepath.Join(scratch, "ground.smt2")
	os.WriteFile(gf, []byte(src), 0o644)
	r := solveFile(gf, 20, false)
	fmt.Fprintf(&log, "obligation re-checked with inputs and observed outputs pinned: %s\n", r.status)
	return r.status == "sat", log.String()
}

func goCache() string {
	if c := os.Getenv("GOCACHE"); c != "" {
		return c
	}
	out, err := exec.Command("go", "env", "GOCACHE").Output()
	if err == nil {
		return strings.TrimSpace(string(out))
	}
	return "/root/.cache/go-build"
}
