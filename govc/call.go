package main

import (
	"fmt"
	"go/types"
	"sort"
	"strings"

	"golang.org/x/tools/go/ssa"
)

type callOut struct {
	reach   string
	results []string
	st      *State
}

func fnKey(f *ssa.Function) string {
	if f.Signature.Recv() != nil {
		t := f.Signature.Recv().Type()
		ptr := false
		if p, ok := t.(*types.Pointer); ok {
			ptr = true
			t = p.Elem()
		}
		if named, ok := t.(*types.Named); ok && named.Obj().Pkg() != nil {
			if ptr {
				return named.Obj().Pkg().Path() + ".(*" + named.Obj().Name() + ")." + f.Name()
			}
			return named.Obj().Pkg().Path() + ".(" + named.Obj().Name() + ")." + f.Name()
		}
	}
	if f.Pkg != nil {
		return f.Pkg.Pkg.Path() + "." + f.Name()
	}
	if f.Parent() != nil {
		return fnKey(f.Parent()) + "$" + f.Name()
	}
	return f.String()
}

func shortKey(k string) string {
	if i := strings.LastIndex(k, "/"); i >= 0 {
		return k[i+1:]
	}
	return k
}

func (f *Frame) setResults(v ssa.Value, rs []string) {
	if v == nil {
		return
	}
	if _, ok := v.Type().(*types.Tuple); ok {
		f.tuples[v] = rs
		return
	}
	if len(rs) > 0 {
		f.vals[v] = rs[0]
	}
}

func sigResults(sig *types.Signature) []types.Type {
	var ts []types.Type
	for i := 0; i < sig.Results().Len(); i++ {
		ts = append(ts, sig.Results().At(i).Type())
	}
	return ts
}

func (f *Frame) symbolicResults(sig *types.Signature, st *State, reach, prefix string) []string {
	var rs []string
	for i, t := range sigResults(sig) {
		rs = append(rs, f.e.symbolic(fmt.Sprintf("%s%s.r%d", f.prefix, prefix, i), t, st, reach))
	}
	return rs
}

func (f *Frame) call(in ssa.Instruction, cc *ssa.CallCommon, v ssa.Value) {
	e := f.e
	if b, ok := cc.Value.(*ssa.Builtin); ok {
		f.builtin(b, cc, v, in)
		return
	}
	var args []string
	site := e.P.pos(in.Pos())
	if cc.IsInvoke() {
		recv := f.val(cc.Value)
		for _, a := range cc.Args {
			args = append(args, f.val(a))
		}
		// (the caller-side rules first: the nil check below refines the path to a non-nil receiver)
		f.callPreObls(cc.Method.Name(), true, append([]ssa.Value{cc.Value}, cc.Args...), append([]string{recv}, args...), in, site)
		f.safety("nil", fmt.Sprintf("(not (= (i_tag %s) 0))", recv), in)
		outs := f.invoke(cc, recv, args, in, site)
		f.finishCall(outs, v, cc.Signature())
		return
	}
	callee := cc.StaticCallee()
	if callee == nil {
		// call of a function value
		for _, a := range cc.Args {
			args = append(args, f.val(a))
		}
		if named, ok := cc.Value.Type().(*types.Named); ok && f.depth == 0 {
			for _, dc := range e.unit.DynCalls {
				if dc.Raw != named.Obj().Name() {
					continue
				}
				vars := map[string]CVal{}
				for k, pv := range f.params {
					vars[k] = pv
				}
				for i, a := range cc.Args {
					vars[fmt.Sprintf("arg%d", i)] = CVal{S: args[i], T: a.Type()}
				}
				errs := []string{}
				env := &CEnv{e: e, vars: vars, st: f.st, old: f.entrySt, pkg: f.fn.Pkg.Pkg, frame: f, at: in.Block(), lets: e.unit.Lets, errs: &errs}
				goal := env.evalBool(dc.Expr)
				f.reportEnvErrs(env, dc)
				e.callOrd["dyn."+dc.Raw]++
				lab := dc.Label
				if lab == "" {
					lab = "d"
				}
				e.oblige("pre", fmt.Sprintf("%s#pre[dyn.%s#%d.%s]", e.unit.Key(), dc.Raw, e.callOrd["dyn."+dc.Raw], lab), lab, f.reach, goal, site)
			}
		}
		e.fullHavoc(f.st, "call of function value in "+f.fn.Name())
		rs := f.symbolicResults(cc.Signature(), f.st, f.reach, "dyn")
		if named, ok := cc.Value.Type().(*types.Named); ok {
			for _, de := range e.unit.DynEnsures {
				if de.Raw != named.Obj().Name() {
					continue
				}
				vars := map[string]CVal{}
				for k, pv := range f.params {
					vars[k] = pv
				}
				for i, a := range cc.Args {
					vars[fmt.Sprintf("arg%d", i)] = CVal{S: args[i], T: a.Type()}
				}
				for i, rt := range sigResults(cc.Signature()) {
					vars[fmt.Sprintf("result%d", i)] = CVal{S: rs[i], T: rt}
				}
				errs := []string{}
				env := &CEnv{e: e, vars: vars, st: f.st, old: f.entrySt, pkg: f.fn.Pkg.Pkg, frame: f, at: in.Block(), lets: e.unit.Lets, errs: &errs}
				fact := env.evalBool(de.Expr)
				f.reportEnvErrs(env, de)
				e.assume(f.reach, fact)
				e.note("assumed of every %s value: %s", de.Raw, de.Text)
			}
		}
		f.setResults(v, rs)
		return
	}
	if mc, ok := cc.Value.(*ssa.MakeClosure); ok {
		// immediately-called / deferred closure: inline with bindings
		for _, a := range cc.Args {
			args = append(args, f.val(a))
		}
		out := f.inlineClosure(mc, args, f.reach, f.st)
		f.finishCall([]callOut{out}, v, cc.Signature())
		return
	}
	for _, a := range cc.Args {
		args = append(args, f.argVal(a, callee))
	}
	f.callPreObls(callee.Name(), callee.Signature.Recv() != nil, cc.Args, args, in, site)
	out := f.callStatic(callee, args, cc.Args, f.reach, f.st, in, site)
	f.finishCall([]callOut{out}, v, cc.Signature())
}

// argVal: value of an argument; derived addresses (places) passed to known models are resolved there.
func (f *Frame) argVal(a ssa.Value, callee *ssa.Function) string {
	if _, ok := f.places[a]; ok {
		if _, seen := f.vals[a]; !seen && isAtomic(callee) {
			return "0"
		}
	}
	return f.val(a)
}

func isAtomic(fn *ssa.Function) bool {
	return fn.Pkg != nil && fn.Pkg.Pkg.Path() == "sync/atomic"
}

func (f *Frame) finishCall(outs []callOut, v ssa.Value, sig *types.Signature) {
	e := f.e
	if len(outs) == 1 {
		f.st = outs[0].st
		if outs[0].reach != f.reach {
			f.reach = outs[0].reach
		}
		f.setResults(v, outs[0].results)
		return
	}
	var conds []string
	var states []*State
	for _, o := range outs {
		conds = append(conds, o.reach)
		states = append(states, o.st)
	}
	f.st = e.mergeStates(conds, states)
	f.reach = e.define(f.prefix+"r", "Bool", "(or "+strings.Join(conds, " ")+")")
	rts := sigResults(sig)
	var rs []string
	for k := range rts {
		expr := outs[len(outs)-1].results[k]
		for i := len(outs) - 2; i >= 0; i-- {
			if outs[i].results[k] != expr {
				expr = fmt.Sprintf("(ite %s %s %s)", conds[i], outs[i].results[k], expr)
			}
		}
		rs = append(rs, e.define(f.prefix+"cr", e.sortOf(rts[k]), expr))
	}
	f.setResults(v, rs)
}

// dispatchTargets resolves an interface method call to the unit's declared dispatch set.
func (e *Enc) dispatchTargets(cc *ssa.CallCommon) []*ssa.Function {
	if len(e.unit.Dispatch) == 0 {
		return nil
	}
	var fns []*ssa.Function
	for _, t := range e.dispatchTypes() {
		ms := e.P.prog.MethodSets.MethodSet(t)
		sel := ms.Lookup(cc.Method.Pkg(), cc.Method.Name())
		if sel == nil {
			continue
		}
		if fn := e.P.prog.MethodValue(sel); fn != nil {
			fns = append(fns, fn)
		}
	}
	return fns
}

func (e *Enc) dispatchTypes() []types.Type {
	var ts []types.Type
	env := &CEnv{e: e, pkg: e.unitPkg()}
	for _, d := range e.unit.Dispatch {
		x, _, err := parseCExpr(d)
		if err != nil {
			continue
		}
		if t := env.resolveType(x); t != nil {
			ts = append(ts, t)
		}
	}
	return ts
}

func (e *Enc) unitPkg() *types.Package {
	if e.fn != nil && e.fn.Pkg != nil {
		return e.fn.Pkg.Pkg
	}
	return nil
}

func (f *Frame) invoke(cc *ssa.CallCommon, recv string, args []string, in ssa.Instruction, site string) []callOut {
	e := f.e
	var outs []callOut
	if len(e.unit.Dispatch) > 0 {
		var guards []string
		for _, t := range e.dispatchTypes() {
			ms := e.P.prog.MethodSets.MethodSet(t)
			sel := ms.Lookup(cc.Method.Pkg(), cc.Method.Name())
			if sel == nil {
				continue
			}
			fn := e.P.prog.MethodValue(sel)
			if fn == nil {
				continue
			}
			g := fmt.Sprintf("(= (i_tag %s) %d)", recv, e.typeTag(t))
			guards = append(guards, g)
			var self string
			if isPointerLike(t) {
				self = fmt.Sprintf("(i_ref %s)", recv)
			} else {
				_, unbox := e.boxFn(t)
				self = fmt.Sprintf("(%s %s)", unbox, recv)
			}
			r := e.define(f.prefix+"dr", "Bool", fmt.Sprintf("(and %s %s)", f.reach, g))
			out := f.callStatic(fn, append([]string{self}, args...), nil, r, f.st.clone(), in, site)
			outs = append(outs, out)
		}
		// other dynamic types
		other := f.reach
		if len(guards) > 0 {
			other = e.define(f.prefix+"dr", "Bool", fmt.Sprintf("(and %s (not (or %s false)))", f.reach, strings.Join(guards, " ")))
		}
		st := f.st.clone()
		if c := e.P.ifaceContract(cc); c != nil {
			outs = append(outs, f.applyContract(c, nil, cc.Signature(), ifaceParamNames(cc), append([]string{recv}, args...), other, st, site))
		} else {
			e.fullHavoc(st, fmt.Sprintf("interface call %s on a type outside the dispatch set", cc.Method.Name()))
			outs = append(outs, callOut{other, f.symbolicResults(cc.Signature(), st, other, "inv"), st})
		}
		return outs
	}
	if c := e.P.ifaceContract(cc); c != nil {
		return []callOut{f.applyContract(c, nil, cc.Signature(), ifaceParamNames(cc), append([]string{recv}, args...), f.reach, f.st, site)}
	}
	st := f.st
	if externalIface(cc.Value.Type()) {
		e.note("method %s of the external interface %s: result havocked, assumed not to modify interpreter state", cc.Method.Name(), cc.Value.Type())
		return []callOut{{f.reach, f.symbolicResults(cc.Signature(), st, f.reach, "inv"), st}}
	}
	e.fullHavoc(st, fmt.Sprintf("interface call %s.%s without contract (%s)", cc.Value.Type(), cc.Method.Name(), f.fn.Name()))
	return []callOut{{f.reach, f.symbolicResults(cc.Signature(), st, f.reach, "inv"), st}}
}

// externalIface: interface types declared outside the module (error, fmt.Stringer, io.Reader, …).
func externalIface(t types.Type) bool {
	named, ok := t.(*types.Named)
	if !ok {
		return false
	}
	if named.Obj().Pkg() == nil {
		return true // universe: error
	}
	return !strings.HasPrefix(named.Obj().Pkg().Path(), modulePath)
}

func ifaceParamNames(cc *ssa.CallCommon) []string {
	names := []string{"self"}
	ps := cc.Signature().Params()
	for i := 0; i < ps.Len(); i++ {
		n := ps.At(i).Name()
		if n == "" {
			n = fmt.Sprintf("arg%d", i)
		}
		names = append(names, n)
	}
	return names
}

func (e *Enc) canInline(callee *ssa.Function, depth int) bool {
	if len(callee.Blocks) == 0 || depth >= 5 {
		return false
	}
	if e.P.isExternal(callee) && !e.unit.InlineAll {
		return false
	}
	for _, n := range e.unit.NoInline {
		if n == callee.Name() {
			return false
		}
	}
	n := 0
	for _, b := range callee.Blocks {
		n += len(b.Instrs)
		for _, s := range b.Succs {
			if s.Dominates(b) {
				return false // loop
			}
		}
		for _, in := range b.Instrs {
			switch in.(type) {
			case *ssa.Go, *ssa.Select:
				return false
			}
		}
	}
	return n <= 600
}

func (f *Frame) callStatic(callee *ssa.Function, args []string, argVals []ssa.Value, reach string, st *State, in ssa.Instruction, site string) callOut {
	e := f.e
	for _, h := range e.unit.Havoc {
		if h == callee.Name() {
			return callOut{reach, f.symbolicResults(callee.Signature, st, reach, callee.Name()), st}
		}
	}
	expand := false
	for _, x := range e.unit.Expand {
		if x == callee.Name() {
			expand = true
		}
	}
	for _, x := range e.unit.NoContract {
		if x == callee.Name() {
			e.fullHavoc(st, "call to "+callee.Name()+" (contract not used in this unit)")
			return callOut{reach, f.symbolicResults(callee.Signature, st, reach, callee.Name()), st}
		}
	}
	if c := e.P.contractFor(callee); c != nil && !(c.Inline && len(callee.Blocks) > 0) && !expand {
		var names []string
		for _, p := range callee.Params {
			names = append(names, p.Name())
		}
		if len(c.Params) > 0 {
			names = c.Params
		}
		return f.applyContract(c, callee, callee.Signature, names, args, reach, st, site)
	}
	if callee.Pkg != nil {
		for _, sp := range e.unit.Strict {
			if sp == callee.Pkg.Pkg.Path() && !e.externalModel(callee) {
				e.callOrd[fnKey(callee)]++
				e.oblige("pre", fmt.Sprintf("%s#pre[%s#%d.contract]", e.unit.Key(), fnKey(callee), e.callOrd[fnKey(callee)]), "contract", reach, "false", site).Output =
					"call into package " + sp + " without a contract: its effect on the property cannot be bounded"
			}
		}
	}
	if out, ok := f.externalCall(callee, args, argVals, reach, st, in); ok {
		return out
	}
	for _, k := range f.chain {
		if k == fnKey(callee) {
			e.fullHavoc(st, "recursive call to "+callee.Name())
			return callOut{reach, f.symbolicResults(callee.Signature, st, reach, callee.Name()), st}
		}
	}
	if e.canInline(callee, f.depth) {
		nf := e.newFrame(callee, f.depth+1)
		nf.chain = append(append([]string{}, f.chain...), fnKey(f.fn))
		nf.encodeBody(args, reach, st)
		r, rs, nst, ok := nf.mergeReturns()
		if !ok {
			// never returns (always panics)
			return callOut{"false", f.symbolicResults(callee.Signature, st, "false", callee.Name()), st}
		}
		return callOut{r, rs, nst}
	}
	if e.P.isExternal(callee) && pureExternal(callee) && !(e.bv() && hasStringSliceResult(callee.Signature)) {
		// a pure standard-library function over scalars and strings: an uninterpreted function of its arguments
		// (named "ext:<pkg>.<Func>", so that contracts can refer to it)
		var as []CVal
		ps := callee.Signature.Params()
		for i := 0; i < ps.Len() && i < len(args); i++ {
			as = append(as, CVal{S: args[i], T: ps.At(i).Type()})
		}
		var rs []string
		for i, rt := range sigResults(callee.Signature) {
			nm := "ext:" + fnKey(callee)
			if i > 0 {
				nm = fmt.Sprintf("%s.%d", nm, i)
			}
			if isStringSlice(rt) {
				// a []string result: a fresh array whose row and length are uninterpreted functions of the arguments
				// (contracts: ufelem("ext:<pkg>.<Func>", k, args...) and uflen("ext:<pkg>.<Func>", args...))
				elem := rt.Underlying().(*types.Slice).Elem()
				ref := e.allocRef(st)
				comp := elemCompName(e, elem)
				h := e.comp(st, comp, e.elemSort(elem))
				row := e.ufAppSort(nm+"#row", as, fmt.Sprintf("(Array %s %s)", e.idxSort(), e.sortOf(elem)))
				e.setComp(st, comp, fmt.Sprintf("(store %s %s %s)", h, ref, row))
				n := e.ufAppSort(nm+"#len", as, "Int")
				e.assume(reach, fmt.Sprintf("(<= 0 %s)", n))
				rs = append(rs, e.define(f.prefix+"ext", e.sortOf(rt), fmt.Sprintf("(mkSlice %s 0 %s %s)", ref, n, n)))
				continue
			}
			r := e.define(f.prefix+"ext", e.sortOf(rt), e.ufApp(nm, as, rt))
			if fact := e.typeFact(r, rt, st); fact != "true" {
				e.assume(reach, fact)
			}
			if isIface(rt) {
				// an error returned by the standard library is nil or a real (non-typed-nil) value
				e.assume(reach, fmt.Sprintf("(or (= %s nilIface) (not (= (i_ref %s) 0)))", r, r))
			}
			rs = append(rs, r)
		}
		e.note("assumed: %s is a pure function of its arguments", fnKey(callee))
		return callOut{reach, rs, st}
	}
	if e.P.isExternal(callee) {
		// shallow havoc
		e.note("external call %s: result havocked; only the direct referents of its arguments may change", fnKey(callee))
		for i, p := range callee.Params {
			f.shallowHavoc(st, args[i], p.Type())
		}
		return callOut{reach, f.symbolicResults(callee.Signature, st, reach, callee.Name()), st}
	}
	e.fullHavoc(st, "call to "+fnKey(callee)+" (no contract, not inlinable)")
	return callOut{reach, f.symbolicResults(callee.Signature, st, reach, callee.Name()), st}
}

func (f *Frame) shallowHavoc(st *State, arg string, t types.Type) {
	e := f.e
	switch u := t.Underlying().(type) {
	case *types.Slice:
		comp := elemCompName(e, u.Elem())
		h := e.comp(st, comp, e.elemSort(u.Elem()))
		row := e.freshConst("row", fmt.Sprintf("(Array %s %s)", e.idxSort(), e.sortOf(u.Elem())))
		e.setComp(st, comp, fmt.Sprintf("(store %s (s_arr %s) %s)", h, arg, row))
	case *types.Pointer:
		if s, ok := u.Elem().Underlying().(*types.Struct); ok {
			for i := 0; i < s.NumFields(); i++ {
				p := e.fieldPlace(arg, u.Elem(), i)
				e.store(st, p, e.freshConst("ext", e.sortOf(s.Field(i).Type())))
			}
		} else if _, ok := u.Elem().Underlying().(*types.Array); !ok {
			p := e.derefPlace(arg, u.Elem())
			e.store(st, p, e.freshConst("ext", e.sortOf(u.Elem())))
		}
	case *types.Signature:
		e.fullHavoc(st, "callback passed to an external function")
	}
}

// resultVars builds the contract-visible names of a call's results.
func resultVars(sig *types.Signature, rs []string, extra []string) map[string]CVal {
	m := map[string]CVal{}
	n := sig.Results().Len()
	for i := 0; i < n; i++ {
		r := sig.Results().At(i)
		cv := CVal{S: rs[i], T: r.Type()}
		m[fmt.Sprintf("result%d", i)] = cv
		if r.Name() != "" && r.Name() != "_" {
			m[r.Name()] = cv
		}
		if i < len(extra) && extra[i] != "" && extra[i] != "_" {
			m[extra[i]] = cv
		}
	}
	if n >= 1 {
		last := sig.Results().At(n - 1)
		if types.Identical(last.Type(), types.Universe.Lookup("error").Type()) {
			m["err"] = CVal{S: rs[n-1], T: last.Type()}
			if n == 2 {
				m["result"] = CVal{S: rs[0], T: sig.Results().At(0).Type()}
			}
		}
		if n == 1 {
			m["result"] = CVal{S: rs[0], T: last.Type()}
		}
		if n == 2 {
			if _, ok := m["result"]; !ok {
				m["result"] = CVal{S: rs[0], T: sig.Results().At(0).Type()}
			}
			if b, ok := last.Type().Underlying().(*types.Basic); ok && b.Kind() == types.Bool {
				m["ok"] = CVal{S: rs[1], T: last.Type()}
			}
		}
	}
	return m
}

func paramTypes(callee *ssa.Function, sig *types.Signature, invoke bool) []types.Type {
	var ts []types.Type
	if callee != nil {
		for _, p := range callee.Params {
			ts = append(ts, p.Type())
		}
		return ts
	}
	if sig.Recv() != nil {
		ts = append(ts, sig.Recv().Type())
	}
	for i := 0; i < sig.Params().Len(); i++ {
		ts = append(ts, sig.Params().At(i).Type())
	}
	return ts
}

// applyContract: assert requires, havoc modifies, assume ensures.
func (f *Frame) applyContract(c *Contract, callee *ssa.Function, sig *types.Signature, names []string, args []string, reach string, st *State, site string) callOut {
	e := f.e
	pts := paramTypes(callee, sig, callee == nil)
	vars := map[string]CVal{}
	for i, n := range names {
		if i < len(args) && i < len(pts) {
			vars[n] = CVal{S: args[i], T: pts[i]}
		}
	}
	pkg := e.P.declPkg(c, callee)
	errs := []string{}
	pre := st.clone()
	env := &CEnv{e: e, vars: vars, st: pre, old: pre, pkg: pkg, lets: c.Lets, errs: &errs}
	e.callOrd[c.Key()]++
	k := e.callOrd[c.Key()]
	for i, r := range c.Requires {
		lab := r.Label
		if lab == "" {
			lab = fmt.Sprintf("r%d", i+1)
		}
		goal := env.evalBool(r.Expr)
		if f.depth == 0 || true {
			e.oblige("pre", fmt.Sprintf("%s#pre[%s#%d.%s]", e.unit.Key(), shortKey(c.Key()), k, lab), lab, reach, goal, site)
		}
		reach = e.define(f.prefix+"r", "Bool", fmt.Sprintf("(and %s %s)", reach, goal))
	}
	// havoc modifies
	if len(c.ModComps) > 0 {
		e.havocMatching(st, c.ModComps)
	}
	if !c.HasMod && len(c.ModComps) == 0 && !c.Trusted && !c.External && !c.UF && callee != nil && len(callee.Blocks) > 0 {
		// a verified contract without a frame clause proves nothing about what the function writes: havoc what
		// its body can write (static write set, allocation sites excluded: fresh objects need no havoc)
		w := &writeSet{comps: map[string]string{}, noAlloc: true}
		e.staticWrites(callee, nil, w, f.depth+1, map[*ssa.Function]bool{callee: true})
		if w.full {
			e.fullHavoc(st, "call to "+shortKey(c.Key())+": contract has no frame clause and its body "+w.why)
		} else {
			if len(w.prefixes) > 0 {
				e.havocMatching(st, w.prefixes)
			}
			var names []string
			for n := range w.comps {
				names = append(names, n)
			}
			sort.Strings(names)
			for _, n := range names {
				if strings.HasPrefix(n, "L_") {
					continue
				}
				e.comp(st, n, w.comps[n])
				e.havocComp(st, n)
			}
			if len(names) > 0 {
				e.note("contract of %s has no frame clause: its static write set is havocked at call sites", shortKey(c.Key()))
			}
		}
	}
	for _, m := range c.Modifies {
		for _, t := range e.modTargets(env, m) {
			e.havocTarget(st, t)
		}
	}
	na := e.freshConst("alloc", "Int")
	e.emit(fmt.Sprintf("(assert (>= %s %s))", na, st.alloc))
	st.alloc = na
	rs := f.symbolicResults(sig, st, reach, shortKey(c.FuncName))
	if c.UF {
		// result is a function of the arguments
		var as []CVal
		for i := range args {
			if i < len(pts) {
				as = append(as, CVal{S: args[i], T: pts[i]})
			}
		}
		for i, rt := range sigResults(sig) {
			nm := c.Key()
			if i > 0 {
				nm = fmt.Sprintf("%s.%d", nm, i)
			}
			rs[i] = e.ufApp(nm, as, rt)
		}
	}
	post := &CEnv{e: e, vars: map[string]CVal{}, st: st, old: pre, pkg: pkg, lets: c.Lets, errs: &errs}
	for k2, v := range vars {
		post.vars[k2] = v
	}
	for k2, v := range resultVars(sig, rs, c.Results) {
		post.vars[k2] = v
	}
	for _, en := range c.Ensures {
		e.assume(reach, post.evalBool(en.Expr))
	}
	for _, en := range c.GhostEns {
		e.assume(reach, post.evalBool(en.Expr))
		e.note("ghost definition (assumed at call sites of %s): %s", shortKey(c.Key()), en.Raw)
	}
	for _, m := range errs {
		e.P.contractError("%s (contract of %s applied at %s): %s", c.Pos, c.Key(), site, m)
	}
	if c.Trusted || c.External {
		e.note("assumed contract: %s", c.Key())
	}
	return callOut{reach, rs, st}
}

type modTarget struct {
	comp string
	ref  string // "*" = every location of the component
	typ  types.Type
	kind string
}

// modTargets evaluates one modifies clause to heap locations.
func (e *Enc) modTargets(env *CEnv, m *Clause) []modTarget {
	x := m.Expr
	if call, ok := x.(interface{ End() interface{} }); ok {
		_ = call
	}
	return e.modTargetsExpr(env, x)
}

func (e *Enc) placeTargets(p *Place) []modTarget {
	if p == nil {
		return nil
	}
	switch p.kind {
	case "field", "cell":
		return []modTarget{{comp: p.comp, ref: p.ref, typ: p.typ, kind: "cell"}}
	case "elem":
		return []modTarget{{comp: p.comp, ref: p.ref, typ: p.typ, kind: "row"}}
	case "global":
		return []modTarget{{comp: p.comp, ref: "*", typ: p.typ, kind: "global"}}
	case "structref":
		var ts []modTarget
		st := p.typ.Underlying().(*types.Struct)
		for i := 0; i < st.NumFields(); i++ {
			fp := e.fieldPlace(p.ref, p.typ, i)
			ts = append(ts, modTarget{comp: fp.comp, ref: fp.ref, typ: fp.typ, kind: "cell"})
		}
		return ts
	}
	return nil
}

func (e *Enc) havocTarget(st *State, t modTarget) {
	switch t.kind {
	case "global":
		e.comp(st, t.comp, e.sortOf(t.typ))
		e.havocComp(st, t.comp)
	case "cell":
		h := e.comp(st, t.comp, fmt.Sprintf("(Array Int %s)", e.sortOf(t.typ)))
		if t.ref == "*" {
			e.havocComp(st, t.comp)
			return
		}
		v := e.freshConst("mod", e.sortOf(t.typ))
		e.emit(fmt.Sprintf("(assert %s)", e.typeFactOr(v, t.typ, st)))
		e.setComp(st, t.comp, fmt.Sprintf("(store %s %s %s)", h, t.ref, v))
	case "row":
		h := e.comp(st, t.comp, e.elemSort(t.typ))
		if t.ref == "*" {
			e.havocComp(st, t.comp)
			return
		}
		row := e.freshConst("modrow", fmt.Sprintf("(Array %s %s)", e.idxSort(), e.sortOf(t.typ)))
		e.setComp(st, t.comp, fmt.Sprintf("(store %s %s %s)", h, t.ref, row))
	case "map":
		h := e.comp(st, t.comp, e.comps[t.comp])
		if t.ref == "*" {
			e.havocComp(st, t.comp)
			return
		}
		inner := e.comps[t.comp]
		inner = strings.TrimSuffix(strings.TrimPrefix(inner, "(Array Int "), ")")
		row := e.freshConst("modmap", inner)
		e.setComp(st, t.comp, fmt.Sprintf("(store %s %s %s)", h, t.ref, row))
	}
}

func (e *Enc) typeFactOr(v string, t types.Type, st *State) string {
	return e.typeFact(v, t, st)
}

var purePkgs = map[string]bool{"strings": true, "strconv": true, "math": true, "unicode": true, "unicode/utf8": true, "math/bits": true, "path/filepath": true, "regexp": true, "net/url": true}

// pureOnly: packages of which only the listed functions are pure (the others read the process state: cwd, environment)
var pureOnly = map[string]map[string]bool{"path/filepath": {"Base": true, "Clean": true, "Dir": true, "Ext": true, "IsAbs": true, "Match": true, "Rel": true, "ToSlash": true, "FromSlash": true, "VolumeName": true, "SplitList": true},
	"regexp": {"MatchString": true, "QuoteMeta": true},
	"net/url": {"QueryEscape": true, "QueryUnescape": true, "PathEscape": true, "PathUnescape": true}}

// pureExternal: a package-level function of a pure standard-library package whose parameters and results are
// strings, booleans, numbers (or a trailing error result).
func pureExternal(fn *ssa.Function) bool {
	if fn.Pkg == nil || !purePkgs[fn.Pkg.Pkg.Path()] || fn.Signature.Recv() != nil || fn.Signature.Variadic() {
		return false
	}
	if only, ok := pureOnly[fn.Pkg.Pkg.Path()]; ok && !only[fn.Name()] {
		return false
	}
	basic := func(t types.Type) bool {
		b, ok := t.Underlying().(*types.Basic)
		return ok && b.Info()&(types.IsString|types.IsBoolean|types.IsNumeric) != 0 && b.Info()&types.IsComplex == 0
	}
	ps := fn.Signature.Params()
	for i := 0; i < ps.Len(); i++ {
		if !basic(ps.At(i).Type()) {
			return false
		}
	}
	rs := fn.Signature.Results()
	if rs.Len() == 0 {
		return false
	}
	for i := 0; i < rs.Len(); i++ {
		t := rs.At(i).Type()
		if i == rs.Len()-1 && types.TypeString(t, nil) == "error" {
			continue
		}
		if isStringSlice(t) {
			continue
		}
		if !basic(t) {
			return false
		}
	}
	return true
}

func isStringSlice(t types.Type) bool {
	sl, ok := t.Underlying().(*types.Slice)
	if !ok {
		return false
	}
	b, ok := sl.Elem().Underlying().(*types.Basic)
	return ok && b.Info()&types.IsString != 0
}

func hasStringSliceResult(sig *types.Signature) bool {
	for i := 0; i < sig.Results().Len(); i++ {
		if isStringSlice(sig.Results().At(i).Type()) {
			return true
		}
	}
	return false
}

// ufAppSort: like ufApp with an explicit SMT result sort (for array-valued functions).
func (e *Enc) ufAppSort(name string, args []CVal, sort string) string {
	fn := "uf_" + sanitize(name)
	if !e.ufSeen[fn] {
		e.ufSeen[fn] = true
		var ss []string
		for _, a := range args {
			if a.IsTag {
				ss = append(ss, "Int")
			} else {
				ss = append(ss, e.sortOf(a.T))
			}
		}
		e.ufDecls = append(e.ufDecls, fmt.Sprintf("(declare-fun %s (%s) %s)", fn, strings.Join(ss, " "), sort))
	}
	if len(args) == 0 {
		return fn
	}
	var as []string
	for _, a := range args {
		as = append(as, a.S)
	}
	return "(" + fn + " " + strings.Join(as, " ") + ")"
}

// callPreObls: obligations of the unit's callpre clauses at a call of the named function or (interface) method.
// In the clause the receiver is `recv`, the other arguments arg0, arg1, ...; the unit's parameters and old() are
// available.
func (f *Frame) callPreObls(name string, hasRecv bool, argVals []ssa.Value, args []string, in ssa.Instruction, site string) {
	e := f.e
	if f.depth != 0 {
		return
	}
	for _, cp := range e.unit.CallPres {
		if cp.Raw != name {
			continue
		}
		vars := map[string]CVal{}
		for k, pv := range f.params {
			vars[k] = pv
		}
		k := 0
		for i, a := range argVals {
			if i == 0 && hasRecv {
				vars["recv"] = CVal{S: args[i], T: a.Type()}
				continue
			}
			vars[fmt.Sprintf("arg%d", k)] = CVal{S: args[i], T: a.Type()}
			k++
		}
		errs := []string{}
		env := &CEnv{e: e, vars: vars, st: f.st, old: f.entrySt, pkg: f.fn.Pkg.Pkg, frame: f, at: in.Block(), lets: e.unit.Lets, errs: &errs}
		goal := env.evalBool(cp.Expr)
		f.reportEnvErrs(env, cp)
		lab := cp.Label
		if lab == "" {
			lab = "c"
		}
		e.callOrd["callpre."+cp.Raw+"."+lab]++
		e.oblige("pre", fmt.Sprintf("%s#pre[call.%s#%d.%s]", e.unit.Key(), cp.Raw, e.callOrd["callpre."+cp.Raw+"."+lab], lab), lab, f.reach, goal, site)
	}
}
