package main

// Contract files: /repo/<pkg>/contracts_verif.go (//go:build verif) or the mirror
// /verif/contracts/<pkg>/contracts_verif.go supplied through the loader overlay.
// Every "//@" line belongs to the unit opened by the last "//@ func", "//@ spec",
// "//@ external" or "//@ global" line.

import (
	"fmt"
	"go/ast"
	"go/parser"
	"strings"
)

type Clause struct {
	Label string
	Text  string   // source text (after ==> preprocessing)
	Expr  ast.Expr // parsed
	Raw   string
	Line  string // file:line
	Loop  int    // for invariants
}

type Contract struct {
	Pkg         string // package path
	FuncName    string // "ResolveIndex" or "(*List).Pop" or "(Int).X"
	Props       []string
	Mode        string // "int" (default) or "bv"
	Requires    []*Clause
	Ensures     []*Clause
	Assumes     []*Clause    // assumed facts about the inputs (not required of callers; listed in evidence)
	Commutes    []CommuteReq // map-range loops with a commutativity obligation
	StoreGuards []*Clause    // storeguard[label] T.f: expr - must hold whenever the unit stores to field f of a T (Raw = "T.f"; value = the stored value)
	ChanSends   []*Clause    // chansend[label]: expr over ch, val - must hold for every channel send (statement or select case) of the unit
	CallPres    []*Clause    // callpre[label] <callee name>: expr over recv, arg0.. - must hold at every static call of that function in the unit (Raw = callee name)
	RetGuards   []*Clause    // returnguard[label]: expr - obligation where the function is about to return (before its deferred calls run); locals, parameters, named results and old() are in scope
	DynEnsures  []*Clause    // dynensures[label] <FuncTypeName>: expr over arg0.., result0.. - ASSUMED of every call of a function value of that named type (Raw = type name)
	SafetyKinds []string     // "safety k1 k2": only these kinds of safety obligations (empty: all)
	DynCalls    []*Clause    // dyncall[label] <FuncTypeName>: expr over arg0.. - obligation at every call of a function value of that named type (Raw = type name)
	SortBy      []*Clause    // sortby <k>: expr - meaning of the less closure of the k-th sort.Slice / sort.SliceStable call (Loop = k)
	Carve       *Clause      // known-finding carve-out: every obligation is split into (cond ==> goal) and (!cond ==> goal)
	CaseAll     bool         // the case split applies to every obligation of the unit, not only postconditions
	Cases       []*Clause    // case split of postcondition obligations (conditions over the entry state)
	GhostEns    []*Clause    // ghost-defining postconditions: assumed at call sites, not proof obligations
	Invs        []*Clause
	Modifies    []*Clause
	HasMod      bool     // a modifies clause (possibly empty) was given
	AssumeFrame bool     // assumeframe: the modifies/modcomps frame is assumed, not proved (listed in evidence)
	ModComps    []string // coarse frame: every location of the components with these name prefixes may change
	Safety      bool     // generate and claim safety obligations
	Overflow    bool     // generate and claim overflow obligations (mode int)
	Inline      bool     // callers inline the body instead of using the contract
	Trusted     bool     // contract is assumed (body not verified)
	TrustedPart bool     // "trusted callpre" / "trusted except L1 L2": contract assumed, but the callpre obligations of the body / the obligations labelled L1, L2 are checked
	TrustedKeep []string // labels checked although the contract is otherwise assumed
	Dispatch    []string
	Lets        []*LetDef
	External    bool     // contract on a function outside the module (always assumed)
	UF          bool     // external: result is an uninterpreted function of the arguments
	Params      []string // external: parameter names
	Results     []string // external / override: result names
	Uses        []string // named axioms assumed in this unit
	Strict      []string // package paths: calls into them must have a contract
	Split       []string // interface parameters whose dynamic type is case-split in postcondition obligations
	Expand      []string // callee names whose contract is ignored in this unit (body inlined instead)
	NoContract  []string // callee names whose contract is ignored in this unit (call is fully havocked)
	NoInline    []string // callee names never inlined in this unit
	Witness     string
	Havoc       []string // callees whose call is treated as result-only havoc
	InlineAll   bool
	Unroll      int
	Pos         string
}

type LetDef struct {
	Name string
	Expr ast.Expr
	Text string
}

type SpecFn struct {
	Pkg    string // declaring package: identifiers in the body resolve there
	Name   string
	Params []string
	Body   ast.Expr
	Text   string
}

type GlobalInv struct {
	Pkg  string
	Name string // non-empty: a named axiom, assumed only in units that list it under "uses"
	Expr ast.Expr
	Text string
}

type CommuteReq struct {
	Loop  int // ordinal among the map-range loops of the function
	Label string
}

// Scan is a syntactic (SSA scan) obligation: e.g. the fields of a struct invariant are written only by
// the listed functions.
type Scan struct {
	Pkg     string
	Kind    string // fieldwriters | globalwriters
	Target  string // Type.field or global name
	Allowed []string
	Props   []string
	Label   string
	Pos     string
}

// PkgCallPre: a caller-side rule for a whole package - pkgcallpre[label] <props> <callee>: expr. Every function of
// the package that calls <callee> gets the rule as a callpre clause; a function without a unit of its own becomes a
// "trusted callpre" unit (only its caller-side obligations are generated).
type PkgCallPre struct {
	Pkg    string
	Props  []string
	Clause *Clause
	Except []string // callers (FuncName form, e.g. (*Parser).parseVar) the rule is not applied to: undecided there, stated in the contract file
}

// Guard: package-level variable <Global> of package Pkg may only be accessed while the lock denoted by Lock is held.
type Guard struct {
	Pkg, Global string
	Lock        ast.Expr
	Text, Pos   string
}

type ContractSet struct {
	Guards      map[string]*Guard // key: pkgpath + "." + global name
	FieldGuards map[string]string // key: pkgpath + "." + Type + "." + field -> name of the mutex field of the same struct
	Scans       []*Scan
	PkgCallPres []*PkgCallPre
	Funcs       map[string]*Contract // key: pkgpath + "." + FuncName
	Order       []string
	Specs       map[string]*SpecFn
	Globals     []*GlobalInv
	Errors      []string
}

func newContractSet() *ContractSet {
	return &ContractSet{Funcs: map[string]*Contract{}, Specs: map[string]*SpecFn{}, Guards: map[string]*Guard{}, FieldGuards: map[string]string{}}
}

// preprocessImplies rewrites "a ==> b" into implies(a, b) and "a <==> b" into iff(a, b),
// with ==> right-associative and binding weaker than every Go operator, inside every
// parenthesised group and call argument.
func preprocessImplies(s string) string {
	return ppGroup(s)
}

// ppGroup handles a string with balanced parens: it rewrites inner groups first, then splits
// on top-level commas, then on top-level <==> and ==>.
func ppGroup(s string) string {
	// rewrite inner parenthesised / bracketed groups
	var out strings.Builder
	depth := 0
	start := -1
	inStr := byte(0)
	for i := 0; i < len(s); i++ {
		c := s[i]
		if inStr != 0 {
			if c == '\\' {
				if depth == 0 {
					out.WriteByte(c)
					if i+1 < len(s) {
						out.WriteByte(s[i+1])
					}
				}
				i++
				continue
			}
			if c == inStr {
				inStr = 0
			}
			if depth == 0 {
				out.WriteByte(c)
			}
			continue
		}
		if c == '"' || c == '\'' || c == '`' {
			inStr = c
			if depth == 0 {
				out.WriteByte(c)
			}
			continue
		}
		if c == '(' || c == '[' {
			if depth == 0 {
				start = i
			}
			depth++
			continue
		}
		if c == ')' || c == ']' {
			depth--
			if depth == 0 {
				inner := s[start+1 : i]
				out.WriteByte(s[start])
				out.WriteString(ppGroup(inner))
				out.WriteByte(c)
			}
			continue
		}
		if depth == 0 {
			out.WriteByte(c)
		}
	}
	flat := out.String()
	parts := splitTop(flat, ",")
	for i, p := range parts {
		parts[i] = ppImpl(p)
	}
	return strings.Join(parts, ",")
}

func splitTop(s, sep string) []string {
	var parts []string
	depth := 0
	last := 0
	inStr := byte(0)
	for i := 0; i < len(s); i++ {
		c := s[i]
		if inStr != 0 {
			if c == '\\' {
				i++
				continue
			}
			if c == inStr {
				inStr = 0
			}
			continue
		}
		if c == '"' || c == '\'' || c == '`' {
			inStr = c
			continue
		}
		if c == '(' || c == '[' || c == '{' {
			depth++
		} else if c == ')' || c == ']' || c == '}' {
			depth--
		} else if depth == 0 && strings.HasPrefix(s[i:], sep) {
			// do not split "<==>" when looking for "==>"
			if sep == "==>" && i > 0 && s[i-1] == '<' {
				continue
			}
			parts = append(parts, s[last:i])
			last = i + len(sep)
			i += len(sep) - 1
		}
	}
	parts = append(parts, s[last:])
	return parts
}

func ppImpl(s string) string {
	if ps := splitTop(s, "<==>"); len(ps) > 1 {
		r := ppImpl(ps[len(ps)-1])
		for i := len(ps) - 2; i >= 0; i-- {
			r = "iff(" + ppImpl(ps[i]) + ", " + r + ")"
		}
		return r
	}
	if ps := splitTop(s, "==>"); len(ps) > 1 {
		r := strings.TrimSpace(ps[len(ps)-1])
		for i := len(ps) - 2; i >= 0; i-- {
			r = "implies(" + strings.TrimSpace(ps[i]) + ", " + r + ")"
		}
		return r
	}
	return s
}

func parseCExpr(text string) (ast.Expr, string, error) {
	pp := preprocessImplies(text)
	e, err := parser.ParseExpr(pp)
	if err != nil {
		return nil, pp, fmt.Errorf("contract expression %q: %v", text, err)
	}
	return e, pp, nil
}

var clauseKeywords = map[string]bool{
	"func": true, "props": true, "ghostensures": true, "case": true, "assume": true, "carve": true, "caseall": true, "commute": true, "sortby": true, "assumeframe": true, "guarded": true, "guardedfield": true, "dyncall": true, "dynensures": true, "returnguard": true, "storeguard": true, "chansend": true, "callpre": true, "mode": true, "requires": true, "ensures": true, "invariant": true,
	"modifies": true, "safety": true, "overflow": true, "inline": true, "trusted": true, "dispatch": true,
	"let": true, "spec": true, "external": true, "uf": true, "params": true, "results": true,
	"global": true, "noinline": true, "nocontract": true, "expand": true, "split": true, "strictpkgs": true, "modcomps": true, "axiom": true, "uses": true, "scan": true, "pkgcallpre": true, "witness": true, "havoc": true, "inlineall": true, "unroll": true,
}

// parseContractSource extracts the //@ lines of one file.
func (cs *ContractSet) parseContractSource(pkgPath, filename string, src []byte) {
	lines := strings.Split(string(src), "\n")
	// join continuation lines
	type cl struct {
		text string
		line int
	}
	var cls []cl
	for i, ln := range lines {
		t := strings.TrimSpace(ln)
		if !strings.HasPrefix(t, "//@") {
			continue
		}
		body := strings.TrimPrefix(t, "//@")
		if strings.TrimSpace(body) == "" {
			continue
		}
		kw := firstWord(strings.TrimSpace(body))
		if i := strings.IndexAny(kw, "[:"); i >= 0 {
			kw = kw[:i]
		}
		if clauseKeywords[kw] {
			cls = append(cls, cl{strings.TrimSpace(body), i + 1})
		} else if len(cls) > 0 {
			cls[len(cls)-1].text += " " + strings.TrimSpace(body)
		} else {
			cs.Errors = append(cs.Errors, fmt.Sprintf("%s:%d: stray contract line", filename, i+1))
		}
	}
	var cur *Contract
	for _, c := range cls {
		pos := fmt.Sprintf("%s:%d", filename, c.line)
		kw := firstWord(c.text)
		rest := strings.TrimSpace(c.text[len(kw):])
		label := ""
		if i := strings.Index(kw, "["); i >= 0 {
			j := strings.Index(kw, "]")
			if j > i {
				label = kw[i+1 : j]
			}
			kw = kw[:i]
		}
		bad := func(err error) {
			cs.Errors = append(cs.Errors, fmt.Sprintf("%s: %v", pos, err))
		}
		mk := func(text string) *Clause {
			e, pp, err := parseCExpr(text)
			if err != nil {
				bad(err)
				return nil
			}
			return &Clause{Label: label, Text: pp, Raw: text, Expr: e, Line: pos}
		}
		switch kw {
		case "func", "external":
			name := rest
			p := pkgPath
			cur = &Contract{Pkg: p, FuncName: name, Mode: "int", Pos: pos}
			if kw == "external" {
				// external <pkgpath>.<Func>   e.g. path/filepath.Clean or (*os.File).Close
				cur.External = true
				cur.Trusted = true
				cur.Pkg = ""
			}
			key := cur.Key()
			if _, dup := cs.Funcs[key]; dup {
				bad(fmt.Errorf("duplicate contract for %s", key))
			}
			cs.Funcs[key] = cur
			cs.Order = append(cs.Order, key)
		case "spec":
			// spec name(a, b) = expr
			eq := strings.Index(rest, "=")
			lp := strings.Index(rest, "(")
			rp := strings.Index(rest, ")")
			if eq < 0 || lp < 0 || rp < lp || eq < rp {
				bad(fmt.Errorf("malformed spec: %s", rest))
				continue
			}
			name := strings.TrimSpace(rest[:lp])
			var params []string
			for _, p := range strings.Split(rest[lp+1:rp], ",") {
				if p = strings.TrimSpace(p); p != "" {
					params = append(params, p)
				}
			}
			e, pp, err := parseCExpr(strings.TrimSpace(rest[eq+1:]))
			if err != nil {
				bad(err)
				continue
			}
			cs.Specs[name] = &SpecFn{Pkg: pkgPath, Name: name, Params: params, Body: e, Text: pp}
			cur = nil
		case "global":
			e, pp, err := parseCExpr(rest)
			if err != nil {
				bad(err)
				continue
			}
			cs.Globals = append(cs.Globals, &GlobalInv{Pkg: pkgPath, Expr: e, Text: pp})
		case "scan":
			// scan[label] <props> fieldwriters Type.field: f1 f2 ...
			colon := strings.Index(rest, ":")
			if colon < 0 {
				bad(fmt.Errorf("scan needs ':'"))
				continue
			}
			head := strings.Fields(rest[:colon])
			if len(head) < 3 {
				bad(fmt.Errorf("scan: props kind target: allowed..."))
				continue
			}
			sc := &Scan{Pkg: pkgPath, Label: label, Pos: pos, Kind: head[len(head)-2], Target: head[len(head)-1], Props: strings.Split(head[0], ","),
				Allowed: strings.Fields(strings.ReplaceAll(rest[colon+1:], ",", " "))}
			if !knownScanKinds[sc.Kind] {
				// an unknown kind must never be read as "nothing found": it is a contract error
				bad(fmt.Errorf("scan: unknown kind %q", sc.Kind))
				continue
			}
			cs.Scans = append(cs.Scans, sc)
		case "pkgcallpre":
			// pkgcallpre[label] <props> <callee>: expr
			colon := strings.Index(rest, ":")
			head := []string{}
			if colon >= 0 {
				head = strings.Fields(rest[:colon])
			}
			if len(head) < 2 {
				bad(fmt.Errorf("pkgcallpre[label] <props> <callee> [-excludedCaller ...]: expr"))
				continue
			}
			if c := mk(strings.TrimSpace(rest[colon+1:])); c != nil {
				c.Raw = head[1]
				r := &PkgCallPre{Pkg: pkgPath, Props: strings.Split(head[0], ","), Clause: c}
				for _, x := range head[2:] {
					if !strings.HasPrefix(x, "-") {
						bad(fmt.Errorf("pkgcallpre: expected -<caller> after the callee"))
						continue
					}
					r.Except = append(r.Except, x[1:])
				}
				cs.PkgCallPres = append(cs.PkgCallPres, r)
			}
			cur = nil
		case "guardedfield":
			// guardedfield <Type>.<field> <mutex field of the same struct>
			fs := strings.Fields(rest)
			if len(fs) != 2 || !strings.Contains(fs[0], ".") {
				bad(fmt.Errorf("guardedfield <Type>.<field> <mutexfield>"))
				continue
			}
			cs.FieldGuards[pkgPath+"."+fs[0]] = fs[1]
		case "guarded":
			// guarded <global> <lock expression>
			fs := strings.SplitN(rest, " ", 2)
			if len(fs) != 2 {
				bad(fmt.Errorf("guarded <global> <lock expr>"))
				continue
			}
			ex, pp, err := parseCExpr(strings.TrimSpace(fs[1]))
			if err != nil {
				bad(err)
				continue
			}
			cs.Guards[pkgPath+"."+fs[0]] = &Guard{Pkg: pkgPath, Global: fs[0], Lock: ex, Text: pp, Pos: pos}
		case "axiom":
			// axiom name: expr
			colon := strings.Index(rest, ":")
			if colon < 0 {
				bad(fmt.Errorf("axiom needs 'name:'"))
				continue
			}
			e, pp, err := parseCExpr(strings.TrimSpace(rest[colon+1:]))
			if err != nil {
				bad(err)
				continue
			}
			cs.Globals = append(cs.Globals, &GlobalInv{Pkg: pkgPath, Name: strings.TrimSpace(rest[:colon]), Expr: e, Text: pp})
		default:
			if cur == nil {
				bad(fmt.Errorf("clause %q outside a func unit", kw))
				continue
			}
			switch kw {
			case "props":
				cur.Props = strings.Fields(strings.ReplaceAll(rest, ",", " "))
			case "mode":
				cur.Mode = rest
			case "requires":
				if c := mk(rest); c != nil {
					cur.Requires = append(cur.Requires, c)
				}
			case "ensures":
				if c := mk(rest); c != nil {
					cur.Ensures = append(cur.Ensures, c)
				}
			case "assume":
				if c := mk(rest); c != nil {
					cur.Assumes = append(cur.Assumes, c)
				}
			case "commute":
				n := 0
				fmt.Sscanf(rest, "%d", &n)
				lab := label
				if lab == "" {
					lab = fmt.Sprintf("loop%d", n)
				}
				cur.Commutes = append(cur.Commutes, CommuteReq{Loop: n, Label: lab})
			case "caseall":
				cur.CaseAll = true
			case "carve":
				if c := mk(rest); c != nil {
					cur.Carve = c
				}
			case "case":
				if c := mk(rest); c != nil {
					cur.Cases = append(cur.Cases, c)
				}
			case "ghostensures":
				if c := mk(rest); c != nil {
					cur.GhostEns = append(cur.GhostEns, c)
				}
			case "invariant":
				// invariant <n>: expr
				colon := strings.Index(rest, ":")
				n := 0
				if colon < 0 {
					bad(fmt.Errorf("invariant needs '<loop#>:'"))
					continue
				}
				fmt.Sscanf(strings.TrimSpace(rest[:colon]), "%d", &n)
				if c := mk(strings.TrimSpace(rest[colon+1:])); c != nil {
					c.Loop = n
					cur.Invs = append(cur.Invs, c)
				}
			case "chansend":
				if c := mk(strings.TrimSpace(strings.TrimPrefix(strings.TrimSpace(rest), ":"))); c != nil {
					cur.ChanSends = append(cur.ChanSends, c)
				}
			case "storeguard":
				colon := strings.Index(rest, ":")
				if colon < 0 {
					bad(fmt.Errorf("storeguard needs '<Type>.<field>:'"))
					continue
				}
				if c := mk(strings.TrimSpace(rest[colon+1:])); c != nil {
					c.Raw = strings.TrimSpace(rest[:colon])
					cur.StoreGuards = append(cur.StoreGuards, c)
				}
			case "callpre":
				colon := strings.Index(rest, ":")
				if colon < 0 {
					bad(fmt.Errorf("callpre needs '<callee>:'"))
					continue
				}
				if c := mk(strings.TrimSpace(rest[colon+1:])); c != nil {
					c.Raw = strings.TrimSpace(rest[:colon])
					cur.CallPres = append(cur.CallPres, c)
				}
			case "dyncall":
				// dyncall[label] <FuncTypeName>: expr over arg0, arg1, ...
				colon := strings.Index(rest, ":")
				if colon < 0 {
					bad(fmt.Errorf("dyncall needs '<FuncType>:'"))
					continue
				}
				if c := mk(strings.TrimSpace(rest[colon+1:])); c != nil {
					c.Raw = strings.TrimSpace(rest[:colon])
					cur.DynCalls = append(cur.DynCalls, c)
				}
			case "returnguard":
				if c := mk(strings.TrimPrefix(strings.TrimSpace(rest), ":")); c != nil {
					cur.RetGuards = append(cur.RetGuards, c)
				}
			case "dynensures":
				// dynensures[label] <FuncTypeName>: expr over arg0.., result0..  (assumption)
				colon := strings.Index(rest, ":")
				if colon < 0 {
					bad(fmt.Errorf("dynensures needs '<FuncType>:'"))
					continue
				}
				if c := mk(strings.TrimSpace(rest[colon+1:])); c != nil {
					c.Raw = strings.TrimSpace(rest[:colon])
					cur.DynEnsures = append(cur.DynEnsures, c)
				}
			case "sortby":
				// sortby <k>: expr over the parameter names of the less closure
				colon := strings.Index(rest, ":")
				n := 0
				if colon < 0 {
					bad(fmt.Errorf("sortby needs '<call#>:'"))
					continue
				}
				fmt.Sscanf(strings.TrimSpace(rest[:colon]), "%d", &n)
				if c := mk(strings.TrimSpace(rest[colon+1:])); c != nil {
					c.Loop = n
					cur.SortBy = append(cur.SortBy, c)
				}
			case "modifies":
				cur.HasMod = true
				if rest != "" && rest != "nothing" {
					for _, part := range splitTop(rest, ",") {
						if c := mk(strings.TrimSpace(part)); c != nil {
							cur.Modifies = append(cur.Modifies, c)
						}
					}
				}
			case "assumeframe":
				cur.AssumeFrame = true
			case "safety":
				cur.Safety = true
				cur.SafetyKinds = strings.Fields(rest)
			case "overflow":
				cur.Overflow = true
			case "inline":
				cur.Inline = true
			case "inlineall":
				cur.InlineAll = true
			case "trusted":
				cur.Trusted = true
				if strings.TrimSpace(rest) == "callpre" {
					cur.TrustedPart = true
				} else if fs := strings.Fields(rest); len(fs) > 1 && fs[0] == "except" {
					cur.TrustedPart = true
					cur.TrustedKeep = fs[1:]
				}
			case "uf":
				cur.UF = true
			case "unroll":
				fmt.Sscanf(rest, "%d", &cur.Unroll)
			case "witness":
				cur.Witness = rest
			case "params":
				cur.Params = strings.Fields(strings.ReplaceAll(rest, ",", " "))
			case "results":
				cur.Results = strings.Fields(strings.ReplaceAll(rest, ",", " "))
			case "dispatch":
				cur.Dispatch = append(cur.Dispatch, strings.Fields(strings.ReplaceAll(rest, ",", " "))...)
			case "modcomps":
				cur.HasMod = true
				cur.ModComps = append(cur.ModComps, strings.Fields(strings.ReplaceAll(rest, ",", " "))...)
			case "uses":
				cur.Uses = append(cur.Uses, strings.Fields(strings.ReplaceAll(rest, ",", " "))...)
			case "strictpkgs":
				cur.Strict = append(cur.Strict, strings.Fields(strings.ReplaceAll(rest, ",", " "))...)
			case "split":
				cur.Split = append(cur.Split, strings.Fields(strings.ReplaceAll(rest, ",", " "))...)
			case "expand":
				cur.Expand = append(cur.Expand, strings.Fields(strings.ReplaceAll(rest, ",", " "))...)
			case "nocontract":
				cur.NoContract = append(cur.NoContract, strings.Fields(strings.ReplaceAll(rest, ",", " "))...)
				cur.NoInline = append(cur.NoInline, strings.Fields(strings.ReplaceAll(rest, ",", " "))...)
			case "noinline":
				cur.NoInline = append(cur.NoInline, strings.Fields(strings.ReplaceAll(rest, ",", " "))...)
			case "havoc":
				cur.Havoc = append(cur.Havoc, strings.Fields(strings.ReplaceAll(rest, ",", " "))...)
			case "let":
				eq := strings.Index(rest, "=")
				if eq < 0 {
					bad(fmt.Errorf("malformed let"))
					continue
				}
				e, pp, err := parseCExpr(strings.TrimSpace(rest[eq+1:]))
				if err != nil {
					bad(err)
					continue
				}
				cur.Lets = append(cur.Lets, &LetDef{Name: strings.TrimSpace(rest[:eq]), Expr: e, Text: pp})
			default:
				// a clause word the binder does not know is a contract error, never a silently dropped clause
				bad(fmt.Errorf("unknown clause %q", kw))
			}
		}
	}
}

func (c *Contract) Key() string {
	if c.Pkg == "" {
		return c.FuncName
	}
	return c.Pkg + "." + c.FuncName
}

func firstWord(s string) string {
	if i := strings.IndexAny(s, " \t"); i >= 0 {
		return s[:i]
	}
	return s
}
