package main

import (
	"fmt"
	"go/types"
	"sort"
	"strings"

	"golang.org/x/tools/go/ssa"
)

// Obl is one proof obligation: (assumptions emitted before it) ∧ reach ∧ ¬goal must be unsat.
type Obl struct {
	ID     string
	Kind   string // post pre inv frame safety overflow lemma cover
	Unit   string
	Label  string
	Prefix int
	Reach  string
	Goal   string
	Where  string
	// model extraction
	Show []ShowVar
	// result
	Status  string // unsat sat unknown timeout error
	Solver  string
	Secs    float64
	Model   map[string]string
	Output  string
	File    string
	MustSat bool // cover obligation: expected sat
	Quick   bool // known finding / unclaimed: expected not to discharge, use a short timeout
}

type ShowVar struct {
	Name string
	Term string
	Type types.Type
}

type State struct {
	h     map[string]string
	epoch int
	alloc string
}

func (s *State) clone() *State {
	n := &State{h: make(map[string]string, len(s.h)), epoch: s.epoch, alloc: s.alloc}
	for k, v := range s.h {
		n.h[k] = v
	}
	return n
}

type Enc struct {
	P    *Program
	unit *Contract
	fn   *ssa.Function
	mode string

	script   []string
	declared map[string]bool
	comps    map[string]string

	structs     map[string]*structInfo
	structOrder []string
	tags        map[string]int
	tagTypes    map[int]types.Type
	impls       map[string]string
	implTypes   map[string]types.Type
	boxes       map[string]string
	boxZero     map[string]string
	ufDecls     []string
	ufSeen      map[string]bool

	obls           []*Obl
	fresh          int
	epochCtr       int
	nilLit         string
	commuteKey     string
	commuteSite    int
	commuteRefs    []commuteRef
	commuteMode    bool
	commuteKeySort string
	epochs         map[int]epochInfo
	frameCtr       int

	assumptions map[string]bool // evidence: things assumed (external contracts, havocs, …)
	callOrd     map[string]int
	safetyOrd   map[string]int
	unsupported []string
	inlineDepth int
	topFrame    *Frame
	st0         *State
}

func newEnc(p *Program, unit *Contract, fn *ssa.Function) *Enc {
	e := &Enc{P: p, unit: unit, fn: fn, mode: unit.Mode,
		declared: map[string]bool{}, comps: map[string]string{},
		structs: map[string]*structInfo{}, tags: map[string]int{}, tagTypes: map[int]types.Type{},
		impls: map[string]string{}, implTypes: map[string]types.Type{}, boxes: map[string]string{}, boxZero: map[string]string{},
		ufSeen: map[string]bool{}, epochs: map[int]epochInfo{}, assumptions: map[string]bool{}, callOrd: map[string]int{}, safetyOrd: map[string]int{},
	}
	if e.mode == "" {
		e.mode = "int"
	}
	return e
}

func (e *Enc) emit(line string) { e.script = append(e.script, line) }

func (e *Enc) declare(name, sort string) string {
	if !e.declared[name] {
		e.declared[name] = true
		e.emit(fmt.Sprintf("(declare-const %s %s)", name, sort))
	}
	return name
}

func (e *Enc) freshName(prefix string) string {
	e.fresh++
	return fmt.Sprintf("|%s!%d|", strings.Trim(prefix, "|"), e.fresh)
}

func (e *Enc) freshConst(prefix, sort string) string {
	return e.declare(e.freshName(prefix), sort)
}

// define introduces a named abbreviation (keeps terms small).
func (e *Enc) define(prefix, sort, term string) string {
	if len(term) < 24 && !strings.Contains(term, " ") {
		return term
	}
	n := e.freshName(prefix)
	e.emit(fmt.Sprintf("(define-fun %s () %s %s)", n, sort, term))
	return n
}

func (e *Enc) assume(reach, fact string) {
	if fact == "true" {
		return
	}
	if reach == "true" || reach == "" {
		e.emit(fmt.Sprintf("(assert %s)", fact))
	} else {
		e.emit(fmt.Sprintf("(assert (=> %s %s))", reach, fact))
	}
}

func (e *Enc) oblige(kind, id, label, reach, goal, where string) *Obl {
	if e.commuteMode && kind != "commute" {
		// only the order-independence obligations are generated in commutativity mode
		return &Obl{ID: id, Kind: kind}
	}
	o := &Obl{ID: id, Kind: kind, Unit: e.unit.Key(), Label: label, Prefix: len(e.script), Reach: reach, Goal: goal, Where: where}
	e.obls = append(e.obls, o)
	return o
}

func (e *Enc) note(format string, args ...any) {
	e.assumptions[fmt.Sprintf(format, args...)] = true
}

// Heap components ------------------------------------------------------------------------------

func (e *Enc) comp(st *State, name, sort string) string {
	if _, ok := e.comps[name]; !ok {
		e.comps[name] = sort
	}
	if t, ok := st.h[name]; ok {
		return t
	}
	// a component first touched in this state: it still has the value of the nearest epoch whose
	// havoc could have changed it
	ep := st.epoch
	for {
		info, ok := e.epochs[ep]
		if !ok || info.prefixes == nil || matchPrefix(name, info.prefixes) {
			break
		}
		ep = info.parent
	}
	n := e.declare(fmt.Sprintf("|%s@e%d|", name, ep), e.comps[name])
	st.h[name] = n
	return n
}

type epochInfo struct {
	parent   int
	prefixes []string // nil: everything was havocked
}

// matchPrefix: name starts with one of the prefixes and with none of the exclusions (entries written "-prefix").
func matchPrefix(name string, prefixes []string) bool {
	for _, p := range prefixes {
		if strings.HasPrefix(p, "-") && strings.HasPrefix(name, p[1:]) {
			return false
		}
	}
	for _, p := range prefixes {
		if !strings.HasPrefix(p, "-") && strings.HasPrefix(name, p) {
			return true
		}
	}
	return false
}

// havocMatching havocs every component whose name starts with one of the prefixes (coarse frames).
func (e *Enc) havocMatching(st *State, prefixes []string) {
	e.epochCtr++
	e.epochs[e.epochCtr] = epochInfo{parent: st.epoch, prefixes: prefixes}
	st.epoch = e.epochCtr
	nh := map[string]string{}
	for k, v := range st.h {
		if !matchPrefix(k, prefixes) {
			nh[k] = v
		}
	}
	st.h = nh
}

func (e *Enc) setComp(st *State, name, term string) {
	st.h[name] = e.define(name, e.comps[name], term)
}

func (e *Enc) havocComp(st *State, name string) {
	st.h[name] = e.freshConst(name, e.comps[name])
}

func (e *Enc) fullHavoc(st *State, why string) {
	e.epochCtr++
	st.epoch = e.epochCtr
	nh := map[string]string{}
	for k, v := range st.h {
		if strings.HasPrefix(k, "L_") || strings.HasPrefix(k, "GHdefer_") || strings.HasPrefix(k, "GHseen_") {
			nh[k] = v // activation-local storage and ghost iteration state are not heap memory
		}
	}
	st.h = nh
	na := e.freshConst("alloc", "Int")
	e.emit(fmt.Sprintf("(assert (>= %s %s))", na, st.alloc))
	st.alloc = na
	e.note("full heap havoc: %s", why)
}

func (e *Enc) mergeStates(conds []string, states []*State) *State {
	if len(states) == 1 {
		return states[0].clone()
	}
	res := &State{h: map[string]string{}}
	sameEpoch := true
	for _, s := range states[1:] {
		if s.epoch != states[0].epoch {
			sameEpoch = false
		}
	}
	if sameEpoch {
		res.epoch = states[0].epoch
	} else {
		e.epochCtr++
		res.epoch = e.epochCtr
		// if every branch descends from a common ancestor through coarse (prefix) havocs only, the merge
		// is itself a prefix havoc of that ancestor
		lineage := func(ep int) []int {
			l := []int{ep}
			for {
				info, ok := e.epochs[ep]
				if !ok || info.prefixes == nil {
					return l
				}
				ep = info.parent
				l = append(l, ep)
			}
		}
		first := lineage(states[0].epoch)
		anc := -1
		for _, cand := range first {
			ok := true
			for _, s := range states[1:] {
				found := false
				for _, x := range lineage(s.epoch) {
					if x == cand {
						found = true
					}
				}
				if !found {
					ok = false
				}
			}
			if ok {
				anc = cand
				break
			}
		}
		if anc >= 0 {
			var union []string
			for _, s := range states {
				for _, x := range lineage(s.epoch) {
					if x == anc {
						break
					}
					union = append(union, e.epochs[x].prefixes...)
				}
			}
			e.epochs[res.epoch] = epochInfo{parent: anc, prefixes: union}
		}
	}
	keys := map[string]bool{}
	if sameEpoch {
		for _, s := range states {
			for k := range s.h {
				keys[k] = true
			}
		}
	} else {
		for k := range e.comps {
			keys[k] = true
		}
	}
	var ks []string
	for k := range keys {
		ks = append(ks, k)
	}
	sort.Strings(ks)
	pick := func(get func(s *State) string, sortName, prefix string) string {
		first := get(states[0])
		same := true
		var ts []string
		for _, s := range states {
			t := get(s)
			ts = append(ts, t)
			if t != first {
				same = false
			}
		}
		if same {
			return first
		}
		expr := ts[len(ts)-1]
		for i := len(ts) - 2; i >= 0; i-- {
			if ts[i] == expr {
				continue
			}
			expr = fmt.Sprintf("(ite %s %s %s)", conds[i], ts[i], expr)
		}
		return e.define(prefix, sortName, expr)
	}
	for _, k := range ks {
		k := k
		res.h[k] = pick(func(s *State) string { return e.comp(s, k, e.comps[k]) }, e.comps[k], k)
	}
	res.alloc = pick(func(s *State) string { return s.alloc }, "Int", "alloc")
	return res
}

// allocRef returns a fresh non-nil reference.
func (e *Enc) allocRef(st *State) string {
	if e.commuteKey != "" {
		// commutativity mode: the address of an object allocated while processing key k at allocation site s
		// is a function of (s, k): results are compared up to the (unobservable) choice of fresh addresses
		e.commuteSite++
		site := e.commuteSite
		t := fmt.Sprintf("(+ alloc0 (uf_fresh %d %s))", site, e.commuteKey)
		e.commuteRefs = append(e.commuteRefs, commuteRef{site, e.commuteKey, t})
		return e.define("ref", "Int", t)
	}
	r := e.define("ref", "Int", fmt.Sprintf("(+ %s 1)", st.alloc))
	st.alloc = r
	return r
}

type commuteRef struct {
	site int
	key  string
	term string
}

// Places ---------------------------------------------------------------------------------------

type subAcc struct {
	field  int         // struct field index, or -1 for array index
	si     *structInfo // for field
	idx    string      // for array index
	result types.Type
}

type Place struct {
	kind string // field elem cell global
	comp string
	ref  string
	idx  string
	off  string // elem places derived from a slice: slice offset and relative index (idx == off+rel)
	rel  string
	typ  types.Type // type of the base location (before sub)
	sub  []subAcc
}

func (p *Place) finalType() types.Type {
	if len(p.sub) > 0 {
		return p.sub[len(p.sub)-1].result
	}
	return p.typ
}

func (e *Enc) placeBaseSort(p *Place) string {
	switch p.kind {
	case "field", "cell":
		return fmt.Sprintf("(Array Int %s)", e.sortOf(p.typ))
	case "elem":
		return fmt.Sprintf("(Array Int (Array %s %s))", e.idxSort(), e.sortOf(p.typ))
	case "global":
		return e.sortOf(p.typ)
	}
	panic("placeBaseSort")
}

func (e *Enc) loadBase(st *State, p *Place) string {
	h := e.comp(st, p.comp, e.placeBaseSort(p))
	switch p.kind {
	case "field", "cell":
		return fmt.Sprintf("(select %s %s)", h, p.ref)
	case "elem":
		if p.rel != "" {
			return fmt.Sprintf("(%s (select %s %s) %s %s)", e.atFn(p.typ), h, p.ref, p.off, p.rel)
		}
		return fmt.Sprintf("(select (select %s %s) %s)", h, p.ref, p.idx)
	case "global":
		return h
	}
	panic("loadBase")
}

// atFn: at_K(row, off, i) == row[off+i]; reads through slices use it so that quantifier patterns over
// slice elements contain no arithmetic.
func (e *Enc) atFn(elem types.Type) string {
	es := e.sortOf(elem)
	name := "at_" + sortKey(es)
	if !e.ufSeen[name] {
		e.ufSeen[name] = true
		is := e.idxSort()
		e.ufDecls = append(e.ufDecls, fmt.Sprintf("(declare-fun %s ((Array %s %s) %s %s) %s)\n(assert (forall ((r (Array %s %s)) (o %s) (i %s)) (! (= (%s r o i) (select r %s)) :pattern ((%s r o i)))))",
			name, is, es, is, is, es, is, es, is, is, name, e.idxAdd("o", "i"), name))
	}
	return name
}

func (e *Enc) storeBase(st *State, p *Place, v string) {
	h := e.comp(st, p.comp, e.placeBaseSort(p))
	switch p.kind {
	case "field", "cell":
		e.setComp(st, p.comp, fmt.Sprintf("(store %s %s %s)", h, p.ref, v))
	case "elem":
		e.setComp(st, p.comp, fmt.Sprintf("(store %s %s (store (select %s %s) %s %s))", h, p.ref, h, p.ref, p.idx, v))
	case "global":
		e.setComp(st, p.comp, v)
	}
}

func (e *Enc) applySub(v string, sub []subAcc) string {
	for _, s := range sub {
		if s.field >= 0 {
			v = fmt.Sprintf("(%s %s)", s.si.fields[s.field], v)
		} else {
			v = fmt.Sprintf("(select %s %s)", v, s.idx)
		}
	}
	return v
}

func (e *Enc) updSub(v string, sub []subAcc, nv string) string {
	if len(sub) == 0 {
		return nv
	}
	s := sub[0]
	if s.field >= 0 {
		var parts []string
		for i, f := range s.si.fields {
			cur := fmt.Sprintf("(%s %s)", f, v)
			if i == s.field {
				cur = e.updSub(cur, sub[1:], nv)
			}
			parts = append(parts, cur)
		}
		return "(" + s.si.ctor + " " + strings.Join(parts, " ") + ")"
	}
	return fmt.Sprintf("(store %s %s %s)", v, s.idx, e.updSub(fmt.Sprintf("(select %s %s)", v, s.idx), sub[1:], nv))
}

func (e *Enc) load(st *State, p *Place) string {
	t := p.finalType()
	if st, ok := t.Underlying().(*types.Struct); ok && len(p.sub) == 0 && p.kind == "structref" {
		_ = st
	}
	if p.kind == "structref" {
		return e.loadStructRef(st, p.ref, p.typ, p.sub)
	}
	return e.applySub(e.loadBase(st, p), p.sub)
}

func (e *Enc) store(st *State, p *Place, v string) {
	if p.kind == "structref" {
		e.storeStructRef(st, p.ref, p.typ, p.sub, v)
		return
	}
	if len(p.sub) == 0 {
		e.storeBase(st, p, v)
		return
	}
	cur := e.loadBase(st, p)
	e.storeBase(st, p, e.updSub(cur, p.sub, v))
}

func fieldComp(structType types.Type, field string) string {
	return "H_" + shortTypeName(structType) + "_" + sanitize(field)
}

// fieldPlace is the place of field i of the struct object ref points to.
func (e *Enc) fieldPlace(ref string, structType types.Type, i int) *Place {
	st := structType.Underlying().(*types.Struct)
	f := st.Field(i)
	return &Place{kind: "field", comp: fieldComp(structType, f.Name()), ref: ref, typ: f.Type()}
}

// loadStructRef reads the whole struct value *ref.
func (e *Enc) loadStructRef(st *State, ref string, structType types.Type, sub []subAcc) string {
	si := e.structInfoOf(structType)
	if len(si.fields) == 0 {
		return e.applySub(si.ctor, sub)
	}
	var parts []string
	for i := range si.fields {
		parts = append(parts, e.load(st, e.fieldPlace(ref, structType, i)))
	}
	return e.applySub("("+si.ctor+" "+strings.Join(parts, " ")+")", sub)
}

func (e *Enc) storeStructRef(st *State, ref string, structType types.Type, sub []subAcc, v string) {
	si := e.structInfoOf(structType)
	if len(sub) > 0 {
		cur := e.loadStructRef(st, ref, structType, nil)
		v = e.updSub(cur, sub, v)
	}
	v = e.define("sv", si.sort, v)
	for i, f := range si.fields {
		e.store(st, e.fieldPlace(ref, structType, i), fmt.Sprintf("(%s %s)", f, v))
	}
}

func elemCompName(e *Enc, elem types.Type) string {
	// one element store per Go element type: arrays of different element types never alias
	return "E_" + shortTypeName(elem)
}

func cellCompName(e *Enc, t types.Type) string {
	return "C_" + sortKey(e.sortOf(t))
}

func globalCompName(g *ssa.Global) string {
	return "G_" + sanitize(g.Pkg.Pkg.Name()) + "_" + sanitize(g.Name())
}

// derefPlace is the place a pointer value refers to when it has no recorded place.
func (e *Enc) derefPlace(ref string, elem types.Type) *Place {
	switch elem.Underlying().(type) {
	case *types.Struct:
		return &Place{kind: "structref", ref: ref, typ: elem}
	case *types.Array:
		// arrays reached through a plain reference live in the element store
		return &Place{kind: "arrayref", ref: ref, typ: elem}
	}
	return &Place{kind: "cell", comp: cellCompName(e, elem), ref: ref, typ: elem}
}

// Type facts -------------------------------------------------------------------------------------

// typeFact returns a well-formedness fact for a symbolic value of Go type t (or "true").
func (e *Enc) typeFact(v string, t types.Type, st *State) string {
	switch u := t.Underlying().(type) {
	case *types.Basic:
		if u.Info()&types.IsInteger != 0 && !e.bv() {
			w, signed := intWidth(u)
			lo, hi := intRange(w, signed)
			return fmt.Sprintf("(and (<= %s %s) (<= %s %s))", lo, v, v, hi)
		}
	case *types.Pointer, *types.Map, *types.Chan, *types.Signature:
		return fmt.Sprintf("(and (<= 0 %s) (<= %s %s))", v, v, st.alloc)
	case *types.Slice:
		z := e.idxLit("0")
		if e.bv() {
			return fmt.Sprintf("(and (bvsle %s (s_off %s)) (bvsle %s (s_len %s)) (bvsle (s_len %s) (s_cap %s)) (bvsle (s_cap %s) (_ bv4611686018427387904 64)) (bvsle (s_off %s) (_ bv4611686018427387904 64)) (<= 0 (s_arr %s)) (<= (s_arr %s) %s) (=> (= (s_arr %s) 0) (= (s_cap %s) %s)))",
				z, v, z, v, v, v, v, v, v, v, st.alloc, v, v, z)
		}
		return fmt.Sprintf("(and (<= 0 (s_off %s)) (<= 0 (s_len %s)) (<= (s_len %s) (s_cap %s)) (<= (+ (s_off %s) (s_cap %s)) 4611686018427387904) (<= 0 (s_arr %s)) (<= (s_arr %s) %s) (=> (= (s_arr %s) 0) (= (s_cap %s) 0)))",
			v, v, v, v, v, v, v, v, st.alloc, v, v)
	case *types.Interface:
		impl := "true"
		if _, named := t.(*types.Named); named && u.NumMethods() > 0 {
			// static typing: a non-nil value of interface type I has a dynamic type implementing I
			impl = fmt.Sprintf("(or (= (i_tag %s) 0) (%s (i_tag %s)))", v, e.implFn(t), v)
		}
		return fmt.Sprintf("(and (<= 0 (i_tag %s)) (=> (= (i_tag %s) 0) (= %s nilIface)) (<= 0 (i_ref %s)) (<= (i_ref %s) %s) %s)", v, v, v, v, v, st.alloc, impl)
	case *types.Struct:
		si := e.structInfoOf(t)
		var fs []string
		for i := 0; i < u.NumFields(); i++ {
			f := e.typeFact(fmt.Sprintf("(%s %s)", si.fields[i], v), u.Field(i).Type(), st)
			if f != "true" {
				fs = append(fs, f)
			}
		}
		if len(fs) == 0 {
			return "true"
		}
		if len(fs) == 1 {
			return fs[0]
		}
		return "(and " + strings.Join(fs, " ") + ")"
	}
	return "true"
}

func intRange(w int, signed bool) (lo, hi string) {
	switch {
	case signed && w == 8:
		return "(- 128)", "127"
	case signed && w == 16:
		return "(- 32768)", "32767"
	case signed && w == 32:
		return "(- 2147483648)", "2147483647"
	case signed:
		return "(- 9223372036854775808)", "9223372036854775807"
	case w == 8:
		return "0", "255"
	case w == 16:
		return "0", "65535"
	case w == 32:
		return "0", "4294967295"
	}
	return "0", "18446744073709551615"
}

// symbolic creates a fresh symbolic value of type t with its type fact assumed under reach.
func (e *Enc) symbolic(prefix string, t types.Type, st *State, reach string) string {
	v := e.freshConst(prefix, e.sortOf(t))
	e.assume(reach, e.typeFact(v, t, st))
	return v
}

// onlyPrefixHavocs: every epoch between ep and the entry epoch came from a coarse (prefix) havoc that the
// unit's own modcomps clause covers.
func (e *Enc) onlyPrefixHavocs(ep int) bool {
	for ep != 0 {
		info, ok := e.epochs[ep]
		if !ok || info.prefixes == nil {
			return false
		}
		for _, p := range info.prefixes {
			if !matchPrefix(p, e.unit.ModComps) {
				return false
			}
		}
		ep = info.parent
	}
	return true
}
