package main

import (
	"fmt"
	"go/constant"
	"go/token"
	"go/types"
	"sort"
	"strings"

	"golang.org/x/tools/go/ssa"
)

// knownScanKinds lists the scan kinds runScan implements; the contract parser rejects every other word (an unknown
// kind used to fall through to the writer scan, which found no writer and reported the obligation as discharged).
var knownScanKinds = map[string]bool{"maprange": true, "gostmts": true, "recoverguard": true, "typekeys": true, "defercalls": true,
	"assertorder": true, "extcalls": true, "pkgglobals": true, "fieldwriters": true, "globalwriters": true, "structfields": true, "recursive": true, "armeffects": true, "armcalls": true, "pkgvars": true, "recoversites": true, "emitoperands": true}

// runScan evaluates one syntactic obligation over the SSA of its package.
func (p *Program) runScan(sc *Scan) *UnitResult {
	id := fmt.Sprintf("%s#scan[%s %s]", sc.Pkg, sc.Kind, sc.Target)
	if sc.Label != "" {
		id = fmt.Sprintf("%s#scan[%s]", sc.Pkg, sc.Label)
	}
	o := &Obl{ID: id, Kind: "scan", Unit: sc.Pkg, Label: sc.Label, Where: sc.Pos, Solver: "ssa-scan"}
	res := &UnitResult{Key: sc.Pkg + "#scan " + sc.Target, Obls: []*Obl{o}}
	allowed := map[string]bool{}
	for _, a := range sc.Allowed {
		allowed[a] = true
	}
	var offenders []string
	found := false
	if sc.Kind == "maprange" {
		// every map-range loop of the package must be listed (with its disposition in the contract file)
		for key, fn := range p.fnByKey {
			if fn.Pkg == nil || fn.Pkg.Pkg.Path() != sc.Pkg {
				continue
			}
			fns := append([]*ssa.Function{fn}, fn.AnonFuncs...)
			for _, f := range fns {
				for i := range mapRangeLoops(f) {
					name := shortKey(key)
					name = strings.TrimPrefix(name, fn.Pkg.Pkg.Name()+".")
					if f != fn {
						name += "$" + f.Name()
					}
					name = fmt.Sprintf("%s#%d", name, i+1)
					found = true
					if !allowed[name] {
						offenders = append(offenders, name)
					}
				}
			}
		}
		sort.Strings(offenders)
		if len(offenders) == 0 {
			o.Status = "unsat"
			o.Output = fmt.Sprintf("all %d listed map-range loops of %s accounted for", len(sc.Allowed), sc.Pkg)
		} else {
			o.Status = "sat"
			o.Output = "map-range loops without a recorded disposition: " + strings.Join(offenders, ", ")
		}
		return res
	}
	if sc.Kind == "gostmts" {
		// every go statement of the package must be listed as <function>#<k>:recover (the goroutine's function defers
		// a closure that calls recover()) or <function>#<k>:bare (it does not; the listing records why that is safe)
		for key, fn := range p.fnByKey {
			if fn.Pkg == nil || fn.Pkg.Pkg.Path() != sc.Pkg {
				continue
			}
			fns := append([]*ssa.Function{fn}, fn.AnonFuncs...)
			for _, f := range fns {
				k := 0
				for _, b := range f.Blocks {
					for _, in := range b.Instrs {
						g, ok := in.(*ssa.Go)
						if !ok {
							continue
						}
						k++
						name := strings.TrimPrefix(shortKey(key), fn.Pkg.Pkg.Name()+".")
						if f != fn {
							name += "$" + f.Name()
						}
						kind := "bare"
						if gf := goTarget(g); gf != nil && defersRecover(gf) {
							kind = "recover"
						}
						name = fmt.Sprintf("%s#%d:%s", name, k, kind)
						found = true
						if !allowed[name] {
							offenders = append(offenders, name)
						}
					}
				}
			}
		}
		sort.Strings(offenders)
		if len(offenders) == 0 {
			o.Status = "unsat"
			o.Output = fmt.Sprintf("all go statements of %s are the %d listed ones", sc.Pkg, len(sc.Allowed))
		} else {
			o.Status = "sat"
			o.Output = "go statements without a recorded disposition: " + strings.Join(offenders, ", ")
		}
		_ = found
		return res
	}
	if sc.Kind == "recoverguard" {
		// every listed function of the package defers a closure that calls recover()
		for _, want := range sc.Allowed {
			ok := false
			for key, fn := range p.fnByKey {
				if fn.Pkg == nil || fn.Pkg.Pkg.Path() != sc.Pkg {
					continue
				}
				if strings.TrimPrefix(shortKey(key), fn.Pkg.Pkg.Name()+".") == want {
					ok = defersRecover(fn)
				}
			}
			if !ok {
				offenders = append(offenders, want)
			}
		}
		if len(offenders) == 0 && len(sc.Allowed) > 0 {
			o.Status = "unsat"
			o.Output = fmt.Sprintf("all %d listed functions of %s defer a recover()", len(sc.Allowed), sc.Pkg)
		} else {
			o.Status = "sat"
			o.Output = "functions that do not (or no longer) defer a recover(): " + strings.Join(offenders, ", ")
		}
		return res
	}
	if !knownScanKinds[sc.Kind] {
		o.Status = "sat"
		o.Output = "unknown scan kind " + sc.Kind
		return res
	}
	if sc.Kind == "emitoperands" {
		// emitoperands <emit function>: <Op>=<field> ... - in every function of the package, a call of the (variadic)
		// emit function whose opcode argument is the constant <Op> has exactly one operand, and that operand is - up
		// to numeric conversions - a read of a struct field named <field>. Calls whose opcode is not a constant are
		// not decided. At least one call per listed opcode must exist.
		wantField := map[string]string{}
		for _, a := range sc.Allowed {
			if eq := strings.Index(a, "="); eq > 0 {
				wantField[a[:eq]] = a[eq+1:]
			}
		}
		seenOp := map[string]int{}
		var strip func(v ssa.Value) ssa.Value
		strip = func(v ssa.Value) ssa.Value {
			for {
				switch x := v.(type) {
				case *ssa.Convert:
					v = x.X
				case *ssa.ChangeType:
					v = x.X
				default:
					return v
				}
			}
		}
		fieldRead := func(v ssa.Value) string {
			switch x := strip(v).(type) {
			case *ssa.Field:
				if st, ok := x.X.Type().Underlying().(*types.Struct); ok {
					return st.Field(x.Field).Name()
				}
			case *ssa.UnOp:
				if fa, ok := x.X.(*ssa.FieldAddr); ok && x.Op == token.MUL {
					if pt, ok := fa.X.Type().Underlying().(*types.Pointer); ok {
						if st, ok := pt.Elem().Underlying().(*types.Struct); ok {
							return st.Field(fa.Field).Name()
						}
					}
				}
			}
			return ""
		}
		for key, fn := range p.fnByKey {
			if fn.Pkg == nil || fn.Pkg.Pkg.Path() != sc.Pkg {
				continue
			}
			base := strings.TrimPrefix(shortKey(key), fn.Pkg.Pkg.Name()+".")
			var visit func(f *ssa.Function)
			visit = func(f *ssa.Function) {
				for _, b := range f.Blocks {
					for _, in := range b.Instrs {
						c, ok := in.(*ssa.Call)
						if !ok {
							continue
						}
						callee := c.Call.StaticCallee()
						if callee == nil || strings.TrimPrefix(shortKey(fnKey(callee)), callee.Pkg.Pkg.Name()+".") != sc.Target || len(c.Call.Args) < 3 {
							continue
						}
						k, ok := c.Call.Args[1].(*ssa.Const)
						if !ok {
							continue
						}
						opName := ""
						if named, ok := k.Type().(*types.Named); ok && named.Obj().Pkg() != nil {
							scope := named.Obj().Pkg().Scope()
							for _, n := range scope.Names() {
								if cc, ok := scope.Lookup(n).(*types.Const); ok && types.Identical(cc.Type(), named) && constant.Compare(cc.Val(), token.EQL, k.Value) {
									if _, want := wantField[n]; want {
										opName = n
									}
								}
							}
						}
						if opName == "" {
							continue
						}
						seenOp[opName]++
						// the variadic operands: a slice of a fresh array filled element by element
						var operands []ssa.Value
						if sl, ok := c.Call.Args[2].(*ssa.Slice); ok {
							if al, ok := sl.X.(*ssa.Alloc); ok {
								for _, ref := range *al.Referrers() {
									if ia, ok := ref.(*ssa.IndexAddr); ok {
										for _, r2 := range *ia.Referrers() {
											if st, ok := r2.(*ssa.Store); ok && st.Addr == ia {
												operands = append(operands, st.Val)
											}
										}
									}
								}
							}
						}
						where := p.pos(c.Pos())
						if len(operands) != 1 {
							offenders = append(offenders, fmt.Sprintf("%s at %s: %s emitted with %d operands", base, where, opName, len(operands)))
							continue
						}
						if got := fieldRead(operands[0]); got != wantField[opName] {
							if got == "" {
								got = "not a field read"
							}
							offenders = append(offenders, fmt.Sprintf("%s at %s: the operand of %s is %s, not a read of .%s", base, where, opName, got, wantField[opName]))
						}
					}
				}
				for _, a := range f.AnonFuncs {
					visit(a)
				}
			}
			visit(fn)
		}
		for opn := range wantField {
			if seenOp[opn] == 0 {
				offenders = append(offenders, opn+": no call of "+sc.Target+" with this constant opcode found")
			}
		}
		sort.Strings(offenders)
		if len(offenders) == 0 {
			o.Status = "unsat"
			var parts []string
			for opn, n := range seenOp {
				parts = append(parts, fmt.Sprintf("%s x%d", opn, n))
			}
			sort.Strings(parts)
			o.Output = "every constant-opcode call checked (" + strings.Join(parts, ", ") + ") passes the listed field"
		} else {
			o.Status = "sat"
			o.Output = strings.Join(offenders, "; ")
		}
		return res
	}
	if sc.Kind == "recoversites" {
		// recoversites <pkg>: f1 f2 ... - the functions (and function literals, named <function>$<literal>) of the
		// package that call the builtin recover() are exactly the listed ones. Which panics are turned into errors, and
		// where, is part of the argument that no panic reaches the host AND that a panic ends the evaluation it happened
		// in (the VM's unwinding restores its registers only on the paths the contracts cover).
		have := map[string]bool{}
		for key, fn := range p.fnByKey {
			if fn.Pkg == nil || fn.Pkg.Pkg.Path() != sc.Pkg {
				continue
			}
			base := strings.TrimPrefix(shortKey(key), fn.Pkg.Pkg.Name()+".")
			var visit func(f *ssa.Function, nm string)
			visit = func(f *ssa.Function, nm string) {
				for _, b := range f.Blocks {
					for _, in := range b.Instrs {
						if c, ok := in.(*ssa.Call); ok {
							if bi, ok := c.Call.Value.(*ssa.Builtin); ok && bi.Name() == "recover" {
								have[nm] = true
							}
						}
					}
				}
				for _, a := range f.AnonFuncs {
					visit(a, nm+"$"+a.Name())
				}
			}
			visit(fn, base)
		}
		for n := range have {
			if !allowed[n] {
				offenders = append(offenders, n)
			}
		}
		sort.Strings(offenders)
		var stale []string
		for _, a := range sc.Allowed {
			if !have[a] {
				stale = append(stale, a)
			}
		}
		if len(offenders) == 0 && len(stale) == 0 {
			o.Status = "unsat"
			o.Output = fmt.Sprintf("the %d functions of %s that call recover() are the listed ones", len(have), sc.Pkg)
		} else {
			o.Status = "sat"
			o.Output = ""
			if len(offenders) > 0 {
				o.Output = "recover() called in functions without a recorded disposition: " + strings.Join(offenders, ", ")
			}
			if len(stale) > 0 {
				o.Output += " listed but no longer recovering: " + strings.Join(stale, ", ")
			}
		}
		return res
	}
	if sc.Kind == "pkgvars" {
		// pkgvars <pkg>: v1 v2 ... - the package-level variables of the package are exactly the listed ones. Whatever
		// one evaluation can leave behind for another evaluation in the same process, outside the objects it was given,
		// lives in such a variable; a new one needs a disposition (immutable after init / guarded by a lock / ...).
		have := map[string]bool{}
		// A variable needs a disposition only if it can change after the package is initialised: some function other
		// than the package initialiser stores to it (or to a part of it), updates a map or an element reached from it,
		// or hands its address to a call (atomics, pools, mutexes are changed through methods on their address). A
		// table that is only read after initialisation is not state.
		mutable := map[string]string{}
		var rootGlobal func(v ssa.Value, viaLoad bool) (*ssa.Global, bool)
		rootGlobal = func(v ssa.Value, viaLoad bool) (*ssa.Global, bool) {
			switch x := v.(type) {
			case *ssa.Global:
				return x, viaLoad
			case *ssa.FieldAddr:
				return rootGlobal(x.X, viaLoad)
			case *ssa.IndexAddr:
				return rootGlobal(x.X, viaLoad)
			case *ssa.Slice:
				return rootGlobal(x.X, viaLoad)
			case *ssa.UnOp:
				if x.Op == token.MUL {
					return rootGlobal(x.X, true)
				}
			}
			return nil, false
		}
		for _, fn := range p.fnByKey {
			if fn.Pkg == nil || fn.Pkg.Pkg.Path() != sc.Pkg {
				continue
			}
			var visit func(f *ssa.Function)
			visit = func(f *ssa.Function) {
				isInit := f.Name() == "init" && f.Synthetic != ""
				for _, b := range f.Blocks {
					for _, in := range b.Instrs {
						if isInit {
							continue
						}
						switch x := in.(type) {
						case *ssa.Store:
							if g, _ := rootGlobal(x.Addr, false); g != nil && g.Pkg == fn.Pkg {
								mutable[g.Name()] = "stored to in " + f.Name()
							}
						case *ssa.MapUpdate:
							if g, _ := rootGlobal(x.Map, false); g != nil && g.Pkg == fn.Pkg {
								mutable[g.Name()] = "map updated in " + f.Name()
							}
						case ssa.CallInstruction:
							cc := x.Common()
							vals := append([]ssa.Value{}, cc.Args...)
							if cc.IsInvoke() {
								vals = append(vals, cc.Value)
							}
							for _, a := range vals {
								g, via := rootGlobal(a, false)
								if g == nil || g.Pkg != fn.Pkg {
									continue
								}
								if !via {
									mutable[g.Name()] = "address passed to a call in " + f.Name()
									continue
								}
								// a pointer / map / slice / channel loaded from the variable and handed to a call: what it
								// refers to may be changed there (a cache object behind a pointer-typed variable)
								switch a.Type().Underlying().(type) {
								case *types.Pointer, *types.Map, *types.Slice, *types.Chan:
									if _, seen := mutable[g.Name()]; !seen {
										mutable[g.Name()] = "the object it refers to is handed to a call in " + f.Name()
									}
								}
							}
							if bi, ok := cc.Value.(*ssa.Builtin); ok && (bi.Name() == "delete" || bi.Name() == "clear") && len(cc.Args) > 0 {
								if g, _ := rootGlobal(cc.Args[0], false); g != nil && g.Pkg == fn.Pkg {
									mutable[g.Name()] = bi.Name() + " in " + f.Name()
								}
							}
						}
					}
				}
				for _, a := range f.AnonFuncs {
					visit(a)
				}
			}
			visit(fn)
		}
		for _, pk := range p.prog.AllPackages() {
			if pk.Pkg.Path() != sc.Pkg {
				continue
			}
			scope := pk.Pkg.Scope()
			for _, n := range scope.Names() {
				if v, ok := scope.Lookup(n).(*types.Var); ok && n != "_" {
					// variables declared in the contract files themselves (proof harness state) do not count
					if strings.HasSuffix(p.prog.Fset.Position(v.Pos()).Filename, "_verif.go") {
						continue
					}
					have[n] = true
					if why, m := mutable[n]; m && !allowed[n] {
						offenders = append(offenders, n+" ("+v.Type().String()+"; "+why+")")
					}
				}
			}
		}
		sort.Strings(offenders)
		var stale []string
		for _, a := range sc.Allowed {
			if !have[a] {
				stale = append(stale, a)
			}
		}
		if len(offenders) == 0 && len(stale) == 0 {
			o.Status = "unsat"
			o.Output = fmt.Sprintf("every package-level variable of %s that can change after initialisation (%d of %d) is listed", sc.Pkg, len(mutable), len(have))
		} else {
			o.Status = "sat"
			o.Output = ""
			if len(offenders) > 0 {
				o.Output = "package-level variables without a recorded disposition: " + strings.Join(offenders, ", ")
			}
			if len(stale) > 0 {
				o.Output += " listed but gone: " + strings.Join(stale, ", ")
			}
		}
		return res
	}
	if sc.Kind == "structfields" {
		// structfields <Type>: f1 f2 ... - the named struct type of the package has exactly the listed fields (embedded
		// fields by their type name). A field that is added has no recorded disposition; one that is removed leaves
		// the listing stale. Either way the inventory the property argument rests on no longer describes the code.
		var st *types.Struct
		for _, pk := range p.prog.AllPackages() {
			if pk.Pkg.Path() != sc.Pkg {
				continue
			}
			if tn, ok := pk.Pkg.Scope().Lookup(sc.Target).(*types.TypeName); ok {
				st, _ = tn.Type().Underlying().(*types.Struct)
			}
		}
		if st == nil {
			o.Status = "sat"
			o.Output = "struct type " + sc.Target + " not found in " + sc.Pkg
			return res
		}
		have := map[string]bool{}
		for i := 0; i < st.NumFields(); i++ {
			have[st.Field(i).Name()] = true
			if !allowed[st.Field(i).Name()] {
				offenders = append(offenders, "field "+st.Field(i).Name()+" ("+st.Field(i).Type().String()+") has no recorded disposition")
			}
		}
		for _, a := range sc.Allowed {
			if !have[a] {
				offenders = append(offenders, "listed field "+a+" no longer exists")
			}
		}
		if len(offenders) == 0 && st.NumFields() > 0 {
			o.Status = "unsat"
			o.Output = fmt.Sprintf("%s has exactly the %d listed fields", sc.Target, st.NumFields())
		} else {
			o.Status = "sat"
			o.Output = strings.Join(offenders, "; ")
		}
		return res
	}
	if sc.Kind == "armeffects" || sc.Kind == "armcalls" {
		return p.scanArmEffects(sc, o, res)
	}
	if sc.Kind == "recursive" {
		// recursive <pkg>: f1 f2 ... - every function of the package that lies on a cycle of the package's call graph
		// must be listed (with the reason it terminates in the contract file). Edges: static calls (also go / defer),
		// the creation of a closure (it may be called), and interface method calls, resolved to every method of the
		// package with that name (class-hierarchy approximation inside the package). Calls that leave the package
		// and come back through a function value are not seen.
		type node = *ssa.Function
		var nodes []node
		name := map[node]string{}
		byMethod := map[string][]node{}
		for key, fn := range p.fnByKey {
			if fn.Pkg == nil || fn.Pkg.Pkg.Path() != sc.Pkg || fn.Blocks == nil {
				continue
			}
			base := strings.TrimPrefix(shortKey(key), fn.Pkg.Pkg.Name()+".")
			var add func(f *ssa.Function, nm string)
			add = func(f *ssa.Function, nm string) {
				if _, ok := name[f]; ok {
					return
				}
				nodes = append(nodes, f)
				name[f] = nm
				for _, a := range f.AnonFuncs {
					add(a, nm+"$"+a.Name())
				}
			}
			add(fn, base)
			if fn.Signature.Recv() != nil {
				byMethod[fn.Name()] = append(byMethod[fn.Name()], fn)
			}
		}
		succ := map[node][]node{}
		for _, f := range nodes {
			for _, b := range f.Blocks {
				for _, in := range b.Instrs {
					if mc, ok := in.(*ssa.MakeClosure); ok {
						if t, ok := mc.Fn.(*ssa.Function); ok {
							if _, in := name[t]; in {
								succ[f] = append(succ[f], t)
							}
						}
					}
					ci, ok := in.(ssa.CallInstruction)
					if !ok {
						continue
					}
					cc := ci.Common()
					if cc.IsInvoke() {
						for _, t := range byMethod[cc.Method.Name()] {
							succ[f] = append(succ[f], t)
						}
						continue
					}
					if t := cc.StaticCallee(); t != nil {
						if _, in := name[t]; in {
							succ[f] = append(succ[f], t)
						}
					}
				}
			}
		}
		// Tarjan
		index, low := map[node]int{}, map[node]int{}
		on := map[node]bool{}
		var stack []node
		next := 0
		cyc := map[node]bool{}
		var strong func(v node)
		strong = func(v node) {
			index[v], low[v] = next, next
			next++
			stack = append(stack, v)
			on[v] = true
			for _, w := range succ[v] {
				if _, seen := index[w]; !seen {
					strong(w)
					if low[w] < low[v] {
						low[v] = low[w]
					}
				} else if on[w] && index[w] < low[v] {
					low[v] = index[w]
				}
			}
			if low[v] == index[v] {
				var comp []node
				for {
					w := stack[len(stack)-1]
					stack = stack[:len(stack)-1]
					on[w] = false
					comp = append(comp, w)
					if w == v {
						break
					}
				}
				self := false
				for _, w := range succ[v] {
					if w == v {
						self = true
					}
				}
				if len(comp) > 1 || self {
					for _, w := range comp {
						cyc[w] = true
					}
				}
			}
		}
		sort.Slice(nodes, func(i, j int) bool { return name[nodes[i]] < name[nodes[j]] })
		for _, v := range nodes {
			if _, seen := index[v]; !seen {
				strong(v)
			}
		}
		have := map[string]bool{}
		for v := range cyc {
			have[name[v]] = true
			if !allowed[name[v]] {
				offenders = append(offenders, name[v])
			}
		}
		sort.Strings(offenders)
		var stale []string
		for _, a := range sc.Allowed {
			if !have[a] {
				stale = append(stale, a)
			}
		}
		if len(offenders) == 0 {
			o.Status = "unsat"
			o.Output = fmt.Sprintf("the %d functions of %s on a call cycle are the listed ones", len(have), sc.Pkg)
			if len(stale) > 0 {
				o.Output += " (listed but no longer on a cycle: " + strings.Join(stale, ", ") + ")"
			}
		} else {
			o.Status = "sat"
			o.Output = "functions on a call cycle without a recorded termination argument: " + strings.Join(offenders, ", ")
		}
		return res
	}
	if sc.Kind == "typekeys" {
		// typekeys <global map>: <allowed basic types> - in the package initialiser, every entry stored into the global
		// map under a key of the form reflect.TypeOf(<value of static type T>) has a T that is not an unnamed basic
		// type, except the listed ones.
		for _, fn := range p.fnByKey {
			if fn.Pkg == nil || fn.Pkg.Pkg.Path() != sc.Pkg || fn.Name() != "init" {
				continue
			}
			for _, b := range fn.Blocks {
				for _, in := range b.Instrs {
					mu, ok := in.(*ssa.MapUpdate)
					if !ok {
						continue
					}
					// the map operand is a load of the global (or the fresh map that is then stored into it)
					isTarget := false
					switch m := mu.Map.(type) {
					case *ssa.UnOp:
						if g, ok := m.X.(*ssa.Global); ok && g.Name() == sc.Target {
							isTarget = true
						}
					case *ssa.MakeMap:
						for _, ref := range *m.Referrers() {
							if st, ok := ref.(*ssa.Store); ok {
								if g, ok := st.Addr.(*ssa.Global); ok && g.Name() == sc.Target {
									isTarget = true
								}
							}
						}
					}
					if !isTarget {
						continue
					}
					found = true
					call, ok := mu.Key.(*ssa.Call)
					if !ok || call.Call.StaticCallee() == nil || fnKey(call.Call.StaticCallee()) != "reflect.TypeOf" || len(call.Call.Args) != 1 {
						offenders = append(offenders, "key that is not reflect.TypeOf(...) at "+p.pos(mu.Pos()))
						continue
					}
					arg := call.Call.Args[0]
					if mi, ok := arg.(*ssa.MakeInterface); ok {
						arg = mi.X
					}
					t := arg.Type()
					if bt, ok := t.(*types.Basic); ok {
						if !allowed[bt.Name()] {
							offenders = append(offenders, "entry for the unnamed basic type "+bt.Name()+" at "+p.pos(mu.Pos()))
						}
					}
				}
			}
		}
		if found && len(offenders) == 0 {
			o.Status = "unsat"
			o.Output = fmt.Sprintf("the initial entries of %s are keyed by no unnamed basic type other than {%s}", sc.Target, strings.Join(sc.Allowed, ", "))
		} else {
			o.Status = "sat"
			if !found {
				offenders = append(offenders, "no initial entry of "+sc.Target+" found in the package initialiser")
			}
			o.Output = strings.Join(offenders, "; ")
		}
		return res
	}
	if sc.Kind == "defercalls" {
		// defercalls <pkg>: <function>=<callee> ... - each listed function has a defer statement that calls <callee>
		// directly (so the call also runs when a panic unwinds through the function)
		for _, want := range sc.Allowed {
			eq := strings.LastIndex(want, "=")
			if eq < 0 {
				offenders = append(offenders, want+" (expected <function>=<callee>)")
				continue
			}
			fname, callee := want[:eq], want[eq+1:]
			ok := false
			for key, fn := range p.fnByKey {
				if fn.Pkg == nil || fn.Pkg.Pkg.Path() != sc.Pkg || strings.TrimPrefix(shortKey(key), fn.Pkg.Pkg.Name()+".") != fname {
					continue
				}
				for _, b := range fn.Blocks {
					for _, in := range b.Instrs {
						if d, isd := in.(*ssa.Defer); isd {
							if sc := d.Call.StaticCallee(); sc != nil && sc.Name() == callee {
								ok = true
							}
						}
					}
				}
			}
			if !ok {
				offenders = append(offenders, want)
			}
		}
		if len(offenders) == 0 && len(sc.Allowed) > 0 {
			o.Status = "unsat"
			o.Output = fmt.Sprintf("all %d listed functions of %s defer the named call", len(sc.Allowed), sc.Pkg)
		} else {
			o.Status = "sat"
			o.Output = "functions that do not (or no longer) defer the named call: " + strings.Join(offenders, ", ")
		}
		return res
	}
	if sc.Kind == "assertorder" {
		// assertorder <function>: A B - in <function>, every comma-ok type test of a value against B (a case of a type
		// switch or a v, ok := x.(B)) is reached only after the same value failed the test against A: values that are
		// both A and B take the A branch. At least one such pair must exist.
		if len(sc.Allowed) != 2 {
			o.Status = "sat"
			o.Output = "assertorder needs two type names"
			return res
		}
		first, second := sc.Allowed[0], sc.Allowed[1]
		qual := func(pk *types.Package) string { return pk.Name() }
		pairs := 0
		for key, fn := range p.fnByKey {
			if fn.Pkg == nil || fn.Pkg.Pkg.Path() != sc.Pkg {
				continue
			}
			if strings.TrimPrefix(shortKey(key), fn.Pkg.Pkg.Name()+".") != sc.Target {
				continue
			}
			found = true
			for _, b := range fn.Blocks {
				for _, in := range b.Instrs {
					ta, ok := in.(*ssa.TypeAssert)
					if !ok || !ta.CommaOk || types.TypeString(ta.AssertedType, qual) != second {
						continue
					}
					// look for the failed test against `first` on the same value that dominates this one
					okPair := false
					for _, b2 := range fn.Blocks {
						for _, in2 := range b2.Instrs {
							t1, ok := in2.(*ssa.TypeAssert)
							if !ok || !t1.CommaOk || t1.X != ta.X || types.TypeString(t1.AssertedType, qual) != first {
								continue
							}
							iff, ok := b2.Instrs[len(b2.Instrs)-1].(*ssa.If)
							if !ok {
								continue
							}
							ex, ok := iff.Cond.(*ssa.Extract)
							if !ok || ex.Tuple != t1 || ex.Index != 1 {
								continue
							}
							els := b2.Succs[1]
							if len(els.Preds) == 1 && els.Dominates(b) {
								okPair = true
							}
						}
					}
					if okPair {
						pairs++
					} else {
						offenders = append(offenders, fmt.Sprintf("%s: test against %s at %s is not preceded by a failed test against %s", sc.Target, second, p.prog.Fset.Position(ta.Pos()), first))
					}
				}
			}
		}
		if found && pairs > 0 && len(offenders) == 0 {
			o.Status = "unsat"
			o.Output = fmt.Sprintf("%d type test(s) against %s in %s, each reached only after the value failed the test against %s", pairs, second, sc.Target, first)
		} else {
			o.Status = "sat"
			if !found {
				offenders = append(offenders, "function "+sc.Target+" not found")
			} else if pairs == 0 && len(offenders) == 0 {
				offenders = append(offenders, "no type test against "+second+" after a failed test against "+first+" in "+sc.Target)
			}
			o.Output = strings.Join(offenders, "; ")
		}
		return res
	}
	if sc.Kind == "extcalls" {
		return p.scanExtCalls(sc, o, res, allowed)
	}
	if sc.Kind == "pkgglobals" {
		return p.scanPkgGlobals(sc, o, res, allowed)
	}
	for key, fn := range p.fnByKey {
		if fn.Pkg == nil || fn.Pkg.Pkg.Path() != sc.Pkg {
			continue
		}
		fns := []*ssa.Function{fn}
		fns = append(fns, fn.AnonFuncs...)
		for _, f := range fns {
			for _, b := range f.Blocks {
				for _, in := range b.Instrs {
					var addr ssa.Value
					switch x := in.(type) {
					case *ssa.Store:
						addr = x.Addr
					case *ssa.MapUpdate:
						addr = x.Map
					case *ssa.Call:
						// delete(m, k) and clear(m) change the map (or slice) they are given
						if bi, ok := x.Call.Value.(*ssa.Builtin); ok && (bi.Name() == "delete" || bi.Name() == "clear") && len(x.Call.Args) > 0 {
							addr = x.Call.Args[0]
						}
					}
					if addr == nil {
						continue
					}
					if writesTarget(addr, sc) {
						found = true
						name := fn.Name()
						if fn.Signature.Recv() != nil {
							name = shortKey(key)
							name = name[strings.LastIndex(name, ".")+1:]
						}
						if !allowed[name] && !allowed[shortKey(key)] {
							offenders = append(offenders, shortKey(key))
						}
					}
				}
			}
		}
	}
	sort.Strings(offenders)
	offenders = dedupe(offenders)
	if len(offenders) == 0 {
		o.Status = "unsat"
		o.Output = fmt.Sprintf("no writer of %s outside {%s}", sc.Target, strings.Join(sc.Allowed, ", "))
		if !found {
			o.Output += " (no writer found at all)"
		}
	} else {
		o.Status = "sat"
		o.Output = "written by: " + strings.Join(offenders, ", ")
	}
	return res
}

func writesTarget(addr ssa.Value, sc *Scan) bool {
	switch sc.Kind {
	case "fieldwriters":
		parts := strings.SplitN(sc.Target, ".", 2)
		for {
			switch a := addr.(type) {
			case *ssa.FieldAddr:
				st := a.X.Type().Underlying().(*types.Pointer).Elem()
				if named, ok := st.(*types.Named); ok && named.Obj().Name() == parts[0] {
					if parts[1] == "*" || st.Underlying().(*types.Struct).Field(a.Field).Name() == parts[1] {
						return true
					}
				}
				addr = a.X
				continue
			case *ssa.IndexAddr:
				addr = a.X
				continue
			case *ssa.UnOp:
				// store through a loaded map / pointer held in the field: *(&x.f)
				addr = a.X
				continue
			}
			return false
		}
	case "globalwriters":
		for {
			switch a := addr.(type) {
			case *ssa.Global:
				return a.Name() == sc.Target
			case *ssa.FieldAddr:
				addr = a.X
				continue
			case *ssa.IndexAddr:
				addr = a.X
				continue
			case *ssa.UnOp:
				addr = a.X
				continue
			}
			return false
		}
	}
	return false
}

// scanExtCalls: effect discipline. Every function of the package that statically calls (or takes the value of)
// a function matching one of the target patterns, or reads/writes a package-level variable matching one, must
// be listed. Patterns: "<pkgpath>.*" or "<pkgpath>.<Name>" (Name is a function, a method name "(T).M" /
// "(*T).M", or a variable); a leading '-' excludes (applied after the inclusions).
func (p *Program) scanExtCalls(sc *Scan, o *Obl, res *UnitResult, allowed map[string]bool) *UnitResult {
	var incl, excl []string
	for _, t := range strings.Split(sc.Target, ",") {
		if strings.HasPrefix(t, "-") {
			excl = append(excl, t[1:])
		} else if t != "" {
			incl = append(incl, t)
		}
	}
	match := func(pats []string, pkg, name string) bool {
		for _, pt := range pats {
			i := strings.LastIndex(pt, ".")
			if strings.HasSuffix(pt, ")") || i < 0 {
				continue
			}
			pp, pn := pt[:i], pt[i+1:]
			if j := strings.Index(pt, ".("); j >= 0 {
				pp, pn = pt[:j], pt[j+1:]
			}
			if pp == pkg && (pn == "*" || pn == name || (strings.HasSuffix(pn, "*") && strings.HasPrefix(name, strings.TrimSuffix(pn, "*")))) {
				return true
			}
		}
		return false
	}
	hit := func(pkg, name string) bool { return match(incl, pkg, name) && !match(excl, pkg, name) }
	extName := func(v ssa.Value) (string, string, bool) {
		switch x := v.(type) {
		case *ssa.Function:
			if x.Pkg != nil {
				return x.Pkg.Pkg.Path(), x.Name(), true
			}
			if recv := x.Signature.Recv(); recv != nil {
				t := recv.Type()
				ptr := ""
				if pt, ok := t.(*types.Pointer); ok {
					t = pt.Elem()
					ptr = "*"
				}
				if n, ok := t.(*types.Named); ok && n.Obj().Pkg() != nil {
					return n.Obj().Pkg().Path(), "(" + ptr + n.Obj().Name() + ")." + x.Name(), true
				}
			}
		case *ssa.Global:
			if x.Pkg != nil {
				return x.Pkg.Pkg.Path(), x.Name(), true
			}
		}
		return "", "", false
	}
	type off struct{ caller, callee string }
	offs := map[off]bool{}
	used := map[string]bool{}
	nfound := 0
	for key, fn := range p.fnByKey {
		if fn.Pkg == nil || fn.Pkg.Pkg.Path() != sc.Pkg {
			continue
		}
		name := strings.TrimPrefix(shortKey(key), fn.Pkg.Pkg.Name()+".")
		var walk func(f *ssa.Function)
		walk = func(f *ssa.Function) {
			for _, b := range f.Blocks {
				for _, in := range b.Instrs {
					var ops [16]*ssa.Value
					for _, op := range in.Operands(ops[:0]) {
						if op == nil || *op == nil {
							continue
						}
						pk, nm, ok := extName(*op)
						if !ok {
							continue
						}
						if fnv, isFn := (*op).(*ssa.Function); isFn && fnv.Signature.Recv() != nil && fnv.Pkg != nil {
							t := fnv.Signature.Recv().Type()
							ptr := ""
							if pt, ok := t.(*types.Pointer); ok {
								t = pt.Elem()
								ptr = "*"
							}
							if n, ok := t.(*types.Named); ok {
								nm = "(" + ptr + n.Obj().Name() + ")." + fnv.Name()
							}
						}
						if hit(pk, nm) {
							nfound++
							used[name] = true
							if !allowed[name] {
								offs[off{name, pk + "." + nm}] = true
							}
						}
					}
				}
			}
			for _, a := range f.AnonFuncs {
				walk(a)
			}
		}
		walk(fn)
	}
	var offenders []string
	for k := range offs {
		offenders = append(offenders, k.caller+" -> "+k.callee)
	}
	sort.Strings(offenders)
	var stale []string
	for a := range allowed {
		if !used[a] {
			stale = append(stale, a)
		}
	}
	sort.Strings(stale)
	if len(offenders) == 0 {
		o.Status = "unsat"
		o.Output = fmt.Sprintf("%d references to {%s} in %s, all from the %d listed functions", nfound, sc.Target, sc.Pkg, len(allowed))
		if len(stale) > 0 {
			o.Output += "; listed but no longer referencing: " + strings.Join(stale, ", ")
		}
	} else {
		o.Status = "sat"
		o.Output = "references outside the listed functions: " + strings.Join(offenders, "; ")
	}
	return res
}

// scanPkgGlobals: inventory of mutable package-level state. Every (global, function) pair such that the
// function - not a package initialiser - stores to the package-level variable or through it (element, field,
// map entry) must be listed as "global<-function". Writes through a pointer loaded from a global into another
// heap object are not followed (they are the business of that object's own discipline).
func (p *Program) scanPkgGlobals(sc *Scan, o *Obl, res *UnitResult, allowed map[string]bool) *UnitResult {
	found := map[string]bool{}
	for key, fn := range p.fnByKey {
		if fn.Pkg == nil || fn.Pkg.Pkg.Path() != sc.Target {
			continue
		}
		if fn.Name() == "init" || strings.HasPrefix(fn.Name(), "init#") {
			continue
		}
		name := strings.TrimPrefix(shortKey(key), fn.Pkg.Pkg.Name()+".")
		var walk func(f *ssa.Function)
		walk = func(f *ssa.Function) {
			for _, b := range f.Blocks {
				for _, in := range b.Instrs {
					var addr ssa.Value
					switch x := in.(type) {
					case *ssa.Store:
						addr = x.Addr
					case *ssa.MapUpdate:
						addr = x.Map
					case *ssa.Call:
						if bi, ok := x.Call.Value.(*ssa.Builtin); ok && (bi.Name() == "delete" || bi.Name() == "clear") && len(x.Call.Args) > 0 {
							addr = x.Call.Args[0]
						}
					}
					for addr != nil {
						switch a := addr.(type) {
						case *ssa.Global:
							if a.Pkg == fn.Pkg {
								found[a.Name()+"<-"+name] = true
							}
							addr = nil
						case *ssa.FieldAddr:
							addr = a.X
						case *ssa.IndexAddr:
							addr = a.X
						case *ssa.UnOp:
							addr = a.X
						default:
							addr = nil
						}
					}
				}
			}
			for _, a := range f.AnonFuncs {
				walk(a)
			}
		}
		walk(fn)
	}
	var offenders, stale []string
	for k := range found {
		if !allowed[k] {
			offenders = append(offenders, k)
		}
	}
	for a := range allowed {
		if !found[a] {
			stale = append(stale, a)
		}
	}
	sort.Strings(offenders)
	sort.Strings(stale)
	if len(offenders) == 0 {
		o.Status = "unsat"
		o.Output = fmt.Sprintf("%d (global<-writer) pairs outside initialisers in %s, all listed", len(found), sc.Target)
		if len(stale) > 0 {
			o.Output += "; listed but not found: " + strings.Join(stale, ", ")
		}
	} else {
		o.Status = "sat"
		o.Output = "package-level state written outside initialisers without a recorded discipline: " + strings.Join(offenders, ", ")
	}
	return res
}

func dedupe(xs []string) []string {
	var out []string
	for i, x := range xs {
		if i == 0 || x != xs[i-1] {
			out = append(out, x)
		}
	}
	return out
}

// goTarget: the function a go statement starts (closure or static callee), nil for dynamic calls.
func goTarget(g *ssa.Go) *ssa.Function {
	if mc, ok := g.Call.Value.(*ssa.MakeClosure); ok {
		if f, ok := mc.Fn.(*ssa.Function); ok {
			return f
		}
	}
	return g.Call.StaticCallee()
}

// defersRecover: fn defers a function (literal or named) whose body calls the builtin recover.
func defersRecover(fn *ssa.Function) bool {
	for _, b := range fn.Blocks {
		for _, in := range b.Instrs {
			d, ok := in.(*ssa.Defer)
			if !ok {
				continue
			}
			var df *ssa.Function
			if mc, ok := d.Call.Value.(*ssa.MakeClosure); ok {
				df, _ = mc.Fn.(*ssa.Function)
			} else {
				df = d.Call.StaticCallee()
			}
			if df == nil {
				continue
			}
			for _, db := range df.Blocks {
				for _, din := range db.Instrs {
					if c, ok := din.(*ssa.Call); ok {
						if bi, ok := c.Call.Value.(*ssa.Builtin); ok && bi.Name() == "recover" {
							return true
						}
					}
				}
			}
		}
	}
	return false
}


// scanArmEffects: armeffects <function>: <Op>=<e1>/<e2>/... ~<helper>=<n> ...
// <function> is an interpreter loop: a for statement around a switch on an opcode value. For every case of that switch
// the scan computes, over the SSA of the function, the set of net stack effects of all paths from the case's first block
// back to the head of the loop: +1 for each call of the method push, -1 for each pop, +n for each call of a listed
// helper (~callObject=1), and a trailing "j" when the path itself stores the field ip (a jump; operand fetches move
// ip inside fetch and do not count). Paths that end in a return or a panic are not counted (they leave the loop).
// A case whose blocks contain a cycle is reported as "loop" (its effect depends on an operand). Each computed set
// must be a subset of the listed one, every case must be listed, and every listed opcode must exist.
func (p *Program) scanArmEffects(sc *Scan, o *Obl, res *UnitResult) *UnitResult {
	fail := func(msg string) *UnitResult { o.Status = "sat"; o.Output = msg; return res }
	want := map[string]map[string]bool{}
	helpers := map[string]int{}
	for _, a := range sc.Allowed {
		eq := strings.Index(a, "=")
		if eq < 0 {
			return fail("armeffects: expected <Op>=<effects> or ~<helper>=<n>, got " + a)
		}
		k, v := a[:eq], a[eq+1:]
		if strings.HasPrefix(k, "~") {
			n := 0
			fmt.Sscanf(v, "%d", &n)
			helpers[k[1:]] = n
			continue
		}
		want[k] = map[string]bool{}
		for _, e := range strings.Split(v, "/") {
			want[k][e] = true
		}
	}
	var fn *ssa.Function
	for key, f := range p.fnByKey {
		if f.Pkg != nil && f.Pkg.Pkg.Path() == sc.Pkg && strings.TrimPrefix(shortKey(key), f.Pkg.Pkg.Name()+".") == sc.Target {
			fn = f
		}
	}
	if fn == nil || fn.Blocks == nil {
		return fail("function " + sc.Target + " not found")
	}
	// the opcode value: the operand compared with constants of a named integer type most often
	count := map[ssa.Value]int{}
	type test struct {
		blk  *ssa.BasicBlock
		x    ssa.Value
		k    *ssa.Const
		body *ssa.BasicBlock
	}
	var tests []test
	for _, b := range fn.Blocks {
		if len(b.Instrs) == 0 {
			continue
		}
		iff, ok := b.Instrs[len(b.Instrs)-1].(*ssa.If)
		if !ok {
			continue
		}
		bo, ok := iff.Cond.(*ssa.BinOp)
		if !ok || bo.Op != token.EQL {
			continue
		}
		k, ok := bo.Y.(*ssa.Const)
		if !ok {
			continue
		}
		if _, named := bo.X.Type().(*types.Named); !named {
			continue
		}
		count[bo.X]++
		tests = append(tests, test{b, bo.X, k, b.Succs[0]})
	}
	var opv ssa.Value
	for v, n := range count {
		if opv == nil || n > count[opv] {
			opv = v
		}
	}
	if opv == nil || count[opv] < 4 {
		return fail("no opcode switch found in " + sc.Target)
	}
	// names of the constants of the opcode type
	names := map[int64]string{}
	if named, ok := opv.Type().(*types.Named); ok && named.Obj().Pkg() != nil {
		scope := named.Obj().Pkg().Scope()
		for _, n := range scope.Names() {
			if c, ok := scope.Lookup(n).(*types.Const); ok && types.Identical(c.Type(), named) {
				if v, ok := constant.Int64Val(c.Val()); ok {
					if _, dup := names[v]; !dup {
						names[v] = n
					}
				}
			}
		}
	}
	arms := map[*ssa.BasicBlock][]string{}
	var first *ssa.BasicBlock
	isTest := map[*ssa.BasicBlock]bool{}
	for _, t := range tests {
		if t.x != opv {
			continue
		}
		isTest[t.blk] = true
		if first == nil || t.blk.Index < first.Index {
			first = t.blk
		}
		nm := t.k.Value.String()
		if v, ok := constant.Int64Val(t.k.Value); ok && names[v] != "" {
			nm = names[v]
		}
		arms[t.body] = append(arms[t.body], nm)
	}
	// head of the interpreter loop: the closest dominator of the first test that is the target of a back edge
	var head *ssa.BasicBlock
	for b := first; b != nil; b = b.Idom() {
		for _, pr := range b.Preds {
			if b.Dominates(pr) {
				head = b
			}
		}
		if head != nil {
			break
		}
	}
	if head == nil {
		return fail("no loop around the opcode switch of " + sc.Target)
	}
	if sc.Kind == "armcalls" {
		// armcalls <function>: <Op>=<callee>/<callee>/... - the functions and methods called (statically, or through
		// an interface: by method name) in the blocks of the listed cases are among the listed names. Only the listed
		// opcodes are checked.
		var problems []string
		checked := 0
		for body, nms := range arms {
			seenB := map[*ssa.BasicBlock]bool{}
			calls := map[string]bool{}
			var walk func(b *ssa.BasicBlock)
			walk = func(b *ssa.BasicBlock) {
				if b == head || seenB[b] {
					return
				}
				seenB[b] = true
				for _, in := range b.Instrs {
					if ci, ok := in.(ssa.CallInstruction); ok {
						cc := ci.Common()
						switch {
						case cc.IsInvoke():
							calls[cc.Method.Name()] = true
						case cc.StaticCallee() != nil:
							calls[cc.StaticCallee().Name()] = true
						default:
							if _, isBuiltin := cc.Value.(*ssa.Builtin); !isBuiltin {
								calls["<function value>"] = true
							}
						}
					}
				}
				for _, sx := range b.Succs {
					walk(sx)
				}
			}
			walk(body)
			for _, nm := range nms {
				w, ok := want[nm]
				if !ok {
					continue
				}
				checked++
				var extra []string
				for c := range calls {
					if !w[c] {
						extra = append(extra, c)
					}
				}
				sort.Strings(extra)
				if len(extra) > 0 {
					problems = append(problems, fmt.Sprintf("%s: calls %s (listed: %s)", nm, strings.Join(extra, ", "), strings.Join(sc.allowedFor(nm), "/")))
				}
			}
		}
		for nm := range want {
			found := false
			for _, nms := range arms {
				for _, x := range nms {
					if x == nm {
						found = true
					}
				}
			}
			if !found {
				problems = append(problems, nm+": listed but not a case of the switch")
			}
		}
		sort.Strings(problems)
		if len(problems) == 0 && checked > 0 {
			o.Status = "unsat"
			o.Output = fmt.Sprintf("%d listed cases of %s call only the listed functions", checked, sc.Target)
		} else {
			o.Status = "sat"
			o.Output = strings.Join(problems, "; ")
		}
		return res
	}
	type eff struct {
		d int
		j bool
	}
	blockEff := func(b *ssa.BasicBlock) (eff, bool) { // effect, leavesLoop
		e := eff{}
		for _, in := range b.Instrs {
			switch x := in.(type) {
			case *ssa.Return, *ssa.Panic:
				return e, true
			case *ssa.Store:
				if fa, ok := x.Addr.(*ssa.FieldAddr); ok {
					if st, ok := fa.X.Type().Underlying().(*types.Pointer); ok {
						if sst, ok := st.Elem().Underlying().(*types.Struct); ok && sst.Field(fa.Field).Name() == "ip" {
							e.j = true
						}
					}
				}
			case ssa.CallInstruction:
				if _, isDefer := in.(*ssa.Defer); isDefer {
					continue
				}
				if c := x.Common().StaticCallee(); c != nil {
					switch {
					case c.Name() == "push" && c.Signature.Recv() != nil:
						e.d++
					case c.Name() == "pop" && c.Signature.Recv() != nil:
						e.d--
					default:
						if n, ok := helpers[c.Name()]; ok {
							e.d += n
						}
					}
				}
			}
		}
		return e, false
	}
	var problems []string
	seenOps := map[string]bool{}
	var bodies []*ssa.BasicBlock
	for b := range arms {
		bodies = append(bodies, b)
	}
	sort.Slice(bodies, func(i, j int) bool { return bodies[i].Index < bodies[j].Index })
	for _, body := range bodies {
		memo := map[*ssa.BasicBlock]map[eff]bool{}
		onPath := map[*ssa.BasicBlock]bool{}
		loop := false
		var from func(b *ssa.BasicBlock) map[eff]bool
		from = func(b *ssa.BasicBlock) map[eff]bool {
			if b == head {
				return map[eff]bool{{}: true}
			}
			if m, ok := memo[b]; ok {
				return m
			}
			if onPath[b] {
				loop = true
				return map[eff]bool{}
			}
			onPath[b] = true
			out := map[eff]bool{}
			e, leaves := blockEff(b)
			if !leaves {
				for _, s := range b.Succs {
					for t := range from(s) {
						out[eff{e.d + t.d, e.j || t.j}] = true
					}
				}
			}
			onPath[b] = false
			memo[b] = out
			return out
		}
		got := from(body)
		var gs []string
		for e := range got {
			s := fmt.Sprint(e.d)
			if e.j {
				s += "j"
			}
			gs = append(gs, s)
		}
		if loop {
			gs = []string{"loop"}
		}
		sort.Strings(gs)
		for _, nm := range arms[body] {
			seenOps[nm] = true
			w, ok := want[nm]
			if !ok {
				problems = append(problems, fmt.Sprintf("%s: not listed (computed %s)", nm, strings.Join(gs, "/")))
				continue
			}
			for _, g := range gs {
				if !w[g] {
					problems = append(problems, fmt.Sprintf("%s: a path with effect %s (listed: %s; computed: %s)", nm, g, strings.Join(sc.allowedFor(nm), "/"), strings.Join(gs, "/")))
				}
			}
		}
	}
	for nm := range want {
		if !seenOps[nm] {
			problems = append(problems, nm+": listed but not a case of the switch")
		}
	}
	sort.Strings(problems)
	if len(problems) == 0 && len(seenOps) > 0 {
		o.Status = "unsat"
		o.Output = fmt.Sprintf("%d cases of the opcode switch of %s: every path back to the loop head has a listed stack effect", len(seenOps), sc.Target)
	} else {
		o.Status = "sat"
		o.Output = strings.Join(problems, "; ")
	}
	return res
}

func (sc *Scan) allowedFor(op string) []string {
	for _, a := range sc.Allowed {
		if strings.HasPrefix(a, op+"=") {
			return strings.Split(a[len(op)+1:], "/")
		}
	}
	return nil
}
