package main

import (
	"fmt"
	"go/types"
	"sort"
	"strings"

	"golang.org/x/tools/go/ssa"
)

// runScan evaluates one syntactic obligation over the SSA of its package.
func (p *Program) runScan(sc *Scan) *UnitResult {
	id := fmt.Sprintf("%s#scan[%s %s]", sc.Pkg, sc.Kind, sc.Target)
	if sc.Label != "" {
		id = fmt.Sprintf("%s#scan[%s]", sc.Pkg, sc.Label)
	}
	o := &Obl{ID: id, Kind: "scan", Unit: sc.Pkg, Label: sc.Label, Where: sc.Pos, Solver: "ssa-scan"}
	res := &UnitResult{Key: sc.Pkg + "#scan " + sc.Target, Obls: []*Obl{o}}
	allowed := map[string]bool{}
	for _, a := range sc.Allowed {
		allowed[a] = true
	}
	var offenders []string
	found := false
	if sc.Kind == "maprange" {
		// every map-range loop of the package must be listed (with its disposition in the contract file)
		for key, fn := range p.fnByKey {
			if fn.Pkg == nil || fn.Pkg.Pkg.Path() != sc.Pkg {
				continue
			}
			fns := append([]*ssa.Function{fn}, fn.AnonFuncs...)
			for _, f := range fns {
				for i := range mapRangeLoops(f) {
					name := shortKey(key)
					name = strings.TrimPrefix(name, fn.Pkg.Pkg.Name()+".")
					if f != fn {
						name += "$" + f.Name()
					}
					name = fmt.Sprintf("%s#%d", name, i+1)
					found = true
					if !allowed[name] {
						offenders = append(offenders, name)
					}
				}
			}
		}
		sort.Strings(offenders)
		if len(offenders) == 0 {
			o.Status = "unsat"
			o.Output = fmt.Sprintf("all %d listed map-range loops of %s accounted for", len(sc.Allowed), sc.Pkg)
		} else {
			o.Status = "sat"
			o.Output = "map-range loops without a recorded disposition: " + strings.Join(offenders, ", ")
		}
		return res
	}
	for key, fn := range p.fnByKey {
		if fn.Pkg == nil || fn.Pkg.Pkg.Path() != sc.Pkg {
			continue
		}
		fns := []*ssa.Function{fn}
		fns = append(fns, fn.AnonFuncs...)
		for _, f := range fns {
			for _, b := range f.Blocks {
				for _, in := range b.Instrs {
					var addr ssa.Value
					switch x := in.(type) {
					case *ssa.Store:
						addr = x.Addr
					case *ssa.MapUpdate:
						addr = x.Map
					}
					if addr == nil {
						continue
					}
					if writesTarget(addr, sc) {
						found = true
						name := fn.Name()
						if fn.Signature.Recv() != nil {
							name = shortKey(key)
							name = name[strings.LastIndex(name, ".")+1:]
						}
						if !allowed[name] && !allowed[shortKey(key)] {
							offenders = append(offenders, shortKey(key))
						}
					}
				}
			}
		}
	}
	sort.Strings(offenders)
	if len(offenders) == 0 {
		o.Status = "unsat"
		o.Output = fmt.Sprintf("no writer of %s outside {%s}", sc.Target, strings.Join(sc.Allowed, ", "))
		if !found {
			o.Output += " (no writer found at all)"
		}
	} else {
		o.Status = "sat"
		o.Output = "written by: " + strings.Join(offenders, ", ")
	}
	return res
}

func writesTarget(addr ssa.Value, sc *Scan) bool {
	switch sc.Kind {
	case "fieldwriters":
		parts := strings.SplitN(sc.Target, ".", 2)
		for {
			switch a := addr.(type) {
			case *ssa.FieldAddr:
				st := a.X.Type().Underlying().(*types.Pointer).Elem()
				if named, ok := st.(*types.Named); ok && named.Obj().Name() == parts[0] {
					if st.Underlying().(*types.Struct).Field(a.Field).Name() == parts[1] {
						return true
					}
				}
				addr = a.X
				continue
			case *ssa.IndexAddr:
				addr = a.X
				continue
			case *ssa.UnOp:
				// store through a loaded map / pointer held in the field: *(&x.f)
				addr = a.X
				continue
			}
			return false
		}
	case "globalwriters":
		for {
			switch a := addr.(type) {
			case *ssa.Global:
				return a.Name() == sc.Target
			case *ssa.FieldAddr:
				addr = a.X
				continue
			case *ssa.IndexAddr:
				addr = a.X
				continue
			case *ssa.UnOp:
				addr = a.X
				continue
			}
			return false
		}
	}
	return false
}
