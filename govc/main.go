package main

import (
	"flag"
	"fmt"
	"golang.org/x/tools/go/ssa"
	"os"
	"sort"
	"strings"
	"time"
)

func main() {
	if len(os.Args) < 2 {
		fmt.Fprintln(os.Stderr, "usage: govc <check|units|dump> ...")
		os.Exit(2)
	}
	switch os.Args[1] {
	case "check":
		os.Exit(cmdCheck(os.Args[2:]))
	case "dev":
		os.Exit(cmdDev(os.Args[2:]))
	case "maploops":
		p, err := loadProgram("/repo", "/verif/contracts", defaultPatterns)
		if err != nil {
			fmt.Fprintln(os.Stderr, err)
			os.Exit(2)
		}
		var keys []string
		for k := range p.fnByKey {
			keys = append(keys, k)
		}
		sort.Strings(keys)
		for _, k := range keys {
			fn := p.fnByKey[k]
			if p.isExternal(fn) {
				continue
			}
			fns := append([]*ssa.Function{fn}, fn.AnonFuncs...)
			for _, f := range fns {
				for i, h := range mapRangeLoops(f) {
					name := shortKey(k)
					if f != fn {
						name += "$" + f.Name()
					}
					fmt.Printf("%s#%d %s\n", name, i+1, p.pos(h.Instrs[0].Pos()))
				}
			}
		}
	case "ssa":
		p, err := loadProgram("/repo", "/verif/contracts", defaultPatterns)
		if err != nil {
			fmt.Fprintln(os.Stderr, err)
			os.Exit(2)
		}
		for k, fn := range p.fnByKey {
			for _, a := range os.Args[2:] {
				if strings.HasSuffix(k, a) {
					fn.WriteTo(os.Stdout)
					for _, af := range fn.AnonFuncs {
						af.WriteTo(os.Stdout)
					}
				}
			}
		}
	default:
		fmt.Fprintln(os.Stderr, "unknown command")
		os.Exit(2)
	}
}

var defaultPatterns = []string{"./object", "./compiler", "./vm", "./os/...", "./lexer", "./parser", "./builtins", "./importer", "./errz", "./op", "./token", "./ast", "."}

// cmdDev: encode and solve the named units, print a table (development aid).
func cmdDev(args []string) int {
	fs := flag.NewFlagSet("dev", flag.ExitOnError)
	repo := fs.String("repo", "/repo", "repository root")
	contracts := fs.String("contracts", "/verif/contracts", "contract mirror")
	timeout := fs.Int("timeout", 20, "seconds per obligation")
	keep := fs.String("keep", "", "directory to keep SMT files in")
	pk := fs.String("pkgs", "", "comma separated package patterns")
	verbose := fs.Bool("v", false, "print models / outputs")
	fs.Parse(args)
	pats := defaultPatterns
	if *pk != "" {
		pats = strings.Split(*pk, ",")
	}
	t0 := time.Now()
	p, err := loadProgram(*repo, *contracts, pats)
	if err != nil {
		fmt.Fprintln(os.Stderr, err)
		return 2
	}
	fmt.Printf("loaded in %.1fs; %d contracts\n", time.Since(t0).Seconds(), len(p.CS.Funcs))
	var units []*UnitResult
	for _, k := range p.CS.Order {
		c := p.CS.Funcs[k]
		if c.External {
			continue
		}
		sel := len(fs.Args()) == 0
		for _, a := range fs.Args() {
			if strings.Contains(k, a) {
				sel = true
			}
			for _, pr := range c.Props {
				if pr == a {
					sel = true
				}
			}
		}
		if !sel {
			continue
		}
		if len(c.Commutes) > 0 {
			for _, cr := range c.Commutes {
				units = append(units, p.encodeCommute(c, cr.Loop, cr.Label))
			}
			if len(c.Ensures)+len(c.Requires)+len(c.Invs) == 0 && !c.Safety {
				continue
			}
		}
		if c.Trusted {
			if c.TrustedPart {
				units = append(units, p.encodeCallPreOnly(c))
			}
			continue
		}
		u := p.encodeUnit(c)
		units = append(units, u)
	}
	for _, sc := range p.CS.Scans {
		sel := len(fs.Args()) == 0
		for _, a := range fs.Args() {
			if strings.Contains(sc.Pkg+" "+sc.Target, a) {
				sel = true
			}
			for _, pr := range sc.Props {
				if pr == a {
					sel = true
				}
			}
		}
		if sel {
			units = append(units, p.runScan(sc))
		}
	}
	for _, e := range p.errs {
		fmt.Println("CONTRACT ERROR:", e)
	}
	dir := *keep
	if dir == "" {
		dir, _ = os.MkdirTemp("/var/tmp", "govc-")
		defer os.RemoveAll(dir)
	} else {
		os.MkdirAll(dir, 0o755)
	}
	solveAll(units, dir, *timeout, 16, false)
	bad := 0
	for _, u := range units {
		if u.Missing {
			fmt.Printf("%-70s MISSING\n", u.Key)
			bad++
			continue
		}
		for _, o := range u.Obls {
			ok := o.Status == "unsat"
			if o.MustSat {
				ok = o.Status != "unsat"
			}
			mark := "ok  "
			if !ok {
				mark = "FAIL"
				bad++
			}
			fmt.Printf("%s %-90s %-7s %-6s %.2fs %s\n", mark, o.ID, o.Status, o.Solver, o.Secs, o.Where)
			if !ok && *verbose {
				var ks []string
				for k := range o.Model {
					ks = append(ks, k)
				}
				sort.Strings(ks)
				for _, k := range ks {
					fmt.Printf("      %s = %s\n", k, o.Model[k])
				}
				if len(o.Model) == 0 {
					fmt.Printf("      %s\n", firstLines(o.Output, 5))
				}
				fmt.Printf("      file: %s\n", o.File)
			}
		}
		if *verbose {
			for _, a := range u.Assumptions {
				fmt.Println("   assumes:", a)
			}
		}
	}
	fmt.Printf("%d failing; total %.1fs\n", bad, time.Since(t0).Seconds())
	if bad > 0 {
		return 1
	}
	return 0
}

func firstLines(s string, n int) string {
	ls := strings.Split(s, "\n")
	if len(ls) > n {
		ls = ls[:n]
	}
	return strings.Join(ls, " | ")
}
