package main

import (
	"context"
	"fmt"
	"os"
	"os/exec"
	"path/filepath"
	"strings"
	"sync"
	"time"
)

type solverRes struct {
	solver string
	status string
	out    string
	secs   float64
}

func solverCmd(ctx context.Context, solver, file string, secs int) *exec.Cmd {
	switch solver {
	case "cvc5":
		return exec.CommandContext(ctx, "cvc5", fmt.Sprintf("--tlimit=%d", secs*1000), "--strings-exp", "--fp-exp", file)
	}
	return exec.CommandContext(ctx, solver, fmt.Sprintf("-T:%d", secs), file)
}

func runSolver(ctx context.Context, solver, file string, secs int) solverRes {
	t0 := time.Now()
	c, cancel := context.WithTimeout(ctx, time.Duration(secs+2)*time.Second)
	defer cancel()
	out, _ := solverCmd(c, solver, file, secs).CombinedOutput()
	s := strings.TrimSpace(string(out))
	first := s
	if i := strings.Index(s, "\n"); i >= 0 {
		first = s[:i]
	}
	first = strings.TrimSpace(first)
	status := "unknown"
	switch {
	case first == "unsat":
		status = "unsat"
	case first == "sat":
		status = "sat"
	case first == "unknown":
		status = "unknown"
	case strings.Contains(first, "timeout") || c.Err() != nil:
		status = "timeout"
	case strings.HasPrefix(first, "(error") || strings.Contains(first, "rror"):
		status = "error"
	case first == "":
		status = "timeout"
	}
	return solverRes{solver, status, s, time.Since(t0).Seconds()}
}

var solverOrder = []string{"z3-new", "cvc5", "z3"}

// solveFile races the solvers on one file. A definite answer (sat/unsat) from any solver wins.
func solveFile(file string, timeoutSecs int, preferCVC5 bool) solverRes {
	primary := "z3-new"
	if preferCVC5 {
		primary = "cvc5"
	}
	first := timeoutSecs
	if first > 10 {
		first = 10
	}
	r := runSolver(context.Background(), primary, file, first)
	if r.status == "sat" || r.status == "unsat" {
		return r
	}
	ctx, cancel := context.WithCancel(context.Background())
	defer cancel()
	ch := make(chan solverRes, len(solverOrder))
	for _, s := range solverOrder {
		s := s
		go func() { ch <- runSolver(ctx, s, file, timeoutSecs) }()
	}
	best := r
	for range solverOrder {
		x := <-ch
		if x.status == "sat" || x.status == "unsat" {
			return x
		}
		if best.status == "error" || best.status == "" {
			best = x
		}
		if x.status == "error" && best.status != "error" {
			// keep the non-error one
			continue
		}
	}
	return best
}

// solveAll discharges the obligations of all units with a worker pool.
func solveAll(units []*UnitResult, dir string, timeoutSecs, workers int, crossCheck bool) {
	type job struct {
		u *UnitResult
		o *Obl
		n int
	}
	var jobs []job
	n := 0
	for _, u := range units {
		for _, o := range u.Obls {
			if o.Kind == "scan" {
				continue // decided syntactically
			}
			n++
			jobs = append(jobs, job{u, o, n})
		}
	}
	ch := make(chan job)
	var wg sync.WaitGroup
	for w := 0; w < workers; w++ {
		wg.Add(1)
		go func() {
			defer wg.Done()
			for j := range ch {
				file := filepath.Join(dir, fmt.Sprintf("o%04d.smt2", j.n))
				src := j.u.smtFile(j.o, true)
				if len(src) > 4<<20 {
					j.o.Status = "error"
					j.o.Output = "VC exceeds size cap"
					continue
				}
				os.WriteFile(file, []byte(src), 0o644)
				j.o.File = file
				fp := strings.Contains(src, "FloatingPoint") || strings.Contains(src, "fp.")
				var r solverRes
				if j.o.MustSat {
					// vacuity covers: a quick satisfiability probe; "unknown" is inconclusive, only unsat is a finding
					r = runSolver(context.Background(), "z3-new", file, 3)
					if r.status != "sat" && r.status != "unsat" {
						// no model within the probe: ask the other solvers whether the assumptions are contradictory
						for _, s := range []string{"cvc5", "z3"} {
							x := runSolver(context.Background(), s, file, 8)
							if x.status == "sat" || x.status == "unsat" {
								r = x
								break
							}
						}
					}
				} else if j.o.Quick {
					r = solveFile(file, 6, fp)
				} else {
					r = solveFile(file, timeoutSecs, fp)
				}
				j.o.Status, j.o.Solver, j.o.Secs = r.status, r.solver, r.secs
				if j.o.Output == "" || r.status != "unsat" {
					j.o.Output = r.out
				}
				if r.status == "sat" {
					j.o.Model = parseModel(r.out)
				}
				if crossCheck && (r.status == "sat" || r.status == "unsat") {
					for _, s := range solverOrder {
						if s == r.solver {
							continue
						}
						x := runSolver(context.Background(), s, file, 10)
						if (x.status == "sat" || x.status == "unsat") && x.status != r.status {
							j.o.Status = "error"
							j.o.Output = fmt.Sprintf("solver disagreement: %s says %s, %s says %s", r.solver, r.status, s, x.status)
						}
					}
				}
			}
		}()
	}
	for _, j := range jobs {
		ch <- j
	}
	close(ch)
	wg.Wait()
}

// parseModel reads "((name value) (name value))" printed by get-value.
func parseModel(out string) map[string]string {
	m := map[string]string{}
	i := strings.Index(out, "\n")
	if i < 0 {
		return m
	}
	s := strings.TrimSpace(out[i+1:])
	if !strings.HasPrefix(s, "((") {
		return m
	}
	// tokenise top-level pairs
	depth := 0
	start := -1
	for k := 0; k < len(s); k++ {
		switch s[k] {
		case '"':
			// skip string literal
			k++
			for k < len(s) {
				if s[k] == '"' {
					if k+1 < len(s) && s[k+1] == '"' {
						k += 2
						continue
					}
					break
				}
				k++
			}
		case '|':
			k++
			for k < len(s) && s[k] != '|' {
				k++
			}
		case '(':
			depth++
			if depth == 2 {
				start = k
			}
		case ')':
			if depth == 2 && start >= 0 {
				pair := s[start+1 : k]
				name, val := splitPair(pair)
				m[strings.Trim(name, "|")] = val
				start = -1
			}
			depth--
		}
	}
	return m
}

func splitPair(p string) (string, string) {
	p = strings.TrimSpace(p)
	if strings.HasPrefix(p, "|") {
		j := strings.Index(p[1:], "|")
		if j >= 0 {
			return p[:j+2], strings.TrimSpace(p[j+2:])
		}
	}
	if i := strings.IndexAny(p, " \t\n"); i >= 0 {
		return p[:i], strings.TrimSpace(p[i:])
	}
	return p, ""
}
