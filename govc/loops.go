package main

import (
	"fmt"
	"go/ast"
	"go/token"
	"go/types"
	"sort"
	"strings"

	"golang.org/x/tools/go/ssa"
)

// loopBlocks returns the natural loop of header h.
func (f *Frame) loopBlocks(h *ssa.BasicBlock) map[*ssa.BasicBlock]bool {
	in := map[*ssa.BasicBlock]bool{h: true}
	var stack []*ssa.BasicBlock
	for _, p := range h.Preds {
		if f.back[[2]int{p.Index, h.Index}] && !in[p] {
			in[p] = true
			stack = append(stack, p)
		}
	}
	for len(stack) > 0 {
		b := stack[len(stack)-1]
		stack = stack[:len(stack)-1]
		for _, p := range b.Preds {
			if !in[p] {
				in[p] = true
				stack = append(stack, p)
			}
		}
	}
	return in
}

type writeSet struct {
	comps    map[string]string // comp name -> sort
	prefixes []string          // coarse frames of callees
	full     bool
	why      string
	noAlloc  bool // do not count the initialisation of freshly allocated objects (call-site frames)
}

func (w *writeSet) add(name, sort string) { w.comps[name] = sort }

// staticWrites collects the heap components the instructions of the given blocks may write.
func (e *Enc) staticWrites(fn *ssa.Function, blocks map[*ssa.BasicBlock]bool, w *writeSet, depth int, seen map[*ssa.Function]bool) {
	for _, b := range fn.Blocks {
		if blocks != nil && !blocks[b] {
			continue
		}
		for _, in := range b.Instrs {
			switch in := in.(type) {
			case *ssa.Store:
				if w.noAlloc && freshBase(in.Addr) {
					break // initialisation of an object allocated by this very function
				}
				e.addrComps(in.Addr, w)
			case *ssa.MapUpdate:
				md, mv := e.mapComps(in.Map.Type().Underlying().(*types.Map))
				w.add(md, e.comps[md])
				w.add(mv, e.comps[mv])
			case *ssa.Alloc:
				if w.noAlloc {
					break
				}
				elem := in.Type().(*types.Pointer).Elem()
				if privateAlloc(in) {
					w.add(localComp("", in), e.sortOf(elem))
				} else {
					e.wholeComps(elem, w)
				}
			case *ssa.MakeSlice:
				if w.noAlloc {
					break
				}
				el := in.Type().Underlying().(*types.Slice).Elem()
				w.add(elemCompName(e, el), e.elemSort(el))
			case *ssa.MakeMap:
				if w.noAlloc {
					break
				}
				md, _ := e.mapComps(in.Type().Underlying().(*types.Map))
				w.add(md, e.comps[md])
			case *ssa.Defer:
				if w.noAlloc {
					// call-site frame: the deferred call runs inside the callee; count what it writes
					e.callWrites(fn, &in.Call, in, w, depth, seen)
					break
				}
				w.full = true
				w.why = "defer"
			case *ssa.RunDefers:
				if !w.noAlloc {
					w.full = true
					w.why = "rundefers"
				}
			case *ssa.Next:
				if w.noAlloc {
					break
				}
				if rng, ok := in.Iter.(*ssa.Range); ok && !in.IsString {
					mt := rng.X.Type().Underlying().(*types.Map)
					w.add("GHseen_"+sanitize(rng.Name()), fmt.Sprintf("(Array %s Bool)", e.sortOf(mt.Key())))
					w.add("GHseen_n_"+sanitize(rng.Name()), e.idxSort())
				}
			case *ssa.Go, *ssa.Send, *ssa.Select:
				w.full = true
				w.why = fmt.Sprintf("%T", in)
			case *ssa.UnOp:
				if in.Op.String() == "<-" {
					w.full = true
					w.why = "channel receive"
				}
			case *ssa.Call:
				e.callWrites(fn, &in.Call, in, w, depth, seen)
			}
		}
	}
}

func (e *Enc) elemSort(el types.Type) string {
	return fmt.Sprintf("(Array Int (Array %s %s))", e.idxSort(), e.sortOf(el))
}

func (e *Enc) wholeComps(elem types.Type, w *writeSet) {
	switch u := elem.Underlying().(type) {
	case *types.Struct:
		for i := 0; i < u.NumFields(); i++ {
			w.add(fieldComp(elem, u.Field(i).Name()), fmt.Sprintf("(Array Int %s)", e.sortOf(u.Field(i).Type())))
		}
	case *types.Array:
		w.add(elemCompName(e, u.Elem()), e.elemSort(u.Elem()))
	default:
		w.add(cellCompName(e, elem), fmt.Sprintf("(Array Int %s)", e.sortOf(elem)))
	}
}

// addrComps: which component a store through addr writes.
func (e *Enc) addrComps(addr ssa.Value, w *writeSet) {
	switch a := addr.(type) {
	case *ssa.FieldAddr:
		switch a.X.(type) {
		case *ssa.FieldAddr, *ssa.IndexAddr, *ssa.Global:
			if ia, ok := a.X.(*ssa.IndexAddr); ok {
				if _, isSlice := ia.X.Type().Underlying().(*types.Slice); isSlice {
					// field of a struct element of a slice
					e.addrComps(a.X, w)
					return
				}
			}
			e.addrComps(a.X, w)
		default:
			st := a.X.Type().Underlying().(*types.Pointer).Elem()
			fld := st.Underlying().(*types.Struct).Field(a.Field)
			w.add(fieldComp(st, fld.Name()), fmt.Sprintf("(Array Int %s)", e.sortOf(fld.Type())))
		}
	case *ssa.IndexAddr:
		switch u := a.X.Type().Underlying().(type) {
		case *types.Slice:
			w.add(elemCompName(e, u.Elem()), e.elemSort(u.Elem()))
		case *types.Pointer:
			switch a.X.(type) {
			case *ssa.FieldAddr, *ssa.IndexAddr, *ssa.Global:
				e.addrComps(a.X, w)
			default:
				arr := u.Elem().Underlying().(*types.Array)
				w.add(elemCompName(e, arr.Elem()), e.elemSort(arr.Elem()))
			}
		}
	case *ssa.Global:
		elem := a.Type().(*types.Pointer).Elem()
		w.add(globalCompName(a), e.sortOf(elem))
	case *ssa.Alloc:
		elem := a.Type().(*types.Pointer).Elem()
		if privateAlloc(a) {
			w.add(localComp("", a), e.sortOf(elem))
			return
		}
		e.wholeComps(elem, w)
	default:
		if pt, ok := addr.Type().Underlying().(*types.Pointer); ok {
			e.wholeComps(pt.Elem(), w)
		}
	}
}

func (e *Enc) callWrites(fn *ssa.Function, cc *ssa.CallCommon, in ssa.Instruction, w *writeSet, depth int, seen map[*ssa.Function]bool) {
	if b, ok := cc.Value.(*ssa.Builtin); ok {
		switch b.Name() {
		case "append":
			el := cc.Args[0].Type().Underlying().(*types.Slice).Elem()
			w.add(elemCompName(e, el), e.elemSort(el))
		case "copy":
			if sl, ok := cc.Args[0].Type().Underlying().(*types.Slice); ok {
				w.add(elemCompName(e, sl.Elem()), e.elemSort(sl.Elem()))
			}
		case "delete":
			md, mv := e.mapComps(cc.Args[0].Type().Underlying().(*types.Map))
			w.add(md, e.comps[md])
			w.add(mv, e.comps[mv])
		case "clear":
			w.full = true
			w.why = "clear"
		}
		return
	}
	callee := cc.StaticCallee()
	if callee == nil {
		if cc.IsInvoke() {
			// dispatch targets
			if targets := e.dispatchTargets(cc); targets != nil {
				for _, t := range targets {
					e.calleeWrites(t, w, depth, seen)
				}
				return
			}
			if c := e.P.ifaceContract(cc); c != nil {
				e.contractWrites(c, nil, w)
				return
			}
			if externalIface(cc.Value.Type()) {
				return
			}
		}
		w.full = true
		w.why = "dynamic call " + cc.String()
		return
	}
	e.calleeWrites(callee, w, depth, seen)
}

func (e *Enc) calleeWrites(callee *ssa.Function, w *writeSet, depth int, seen map[*ssa.Function]bool) {
	if c := e.P.contractFor(callee); c != nil && !(c.Inline && len(callee.Blocks) > 0) {
		e.contractWrites(c, callee, w)
		return
	}
	if e.P.isExternal(callee) {
		if e.externalModel(callee) {
			return
		}
		// shallow effects only (assumption noted at the call)
		for i := 0; i < callee.Signature.Params().Len(); i++ {
			e.shallowComps(callee.Signature.Params().At(i).Type(), w)
		}
		if callee.Signature.Recv() != nil {
			e.shallowComps(callee.Signature.Recv().Type(), w)
		}
		return
	}
	if e.canInline(callee, depth) {
		if !seen[callee] {
			seen[callee] = true
			e.staticWrites(callee, nil, w, depth+1, seen)
		}
		return
	}
	w.full = true
	w.why = "call to " + callee.String() + " (no contract, not inlinable)"
}

func (e *Enc) shallowComps(t types.Type, w *writeSet) {
	switch u := t.Underlying().(type) {
	case *types.Slice:
		w.add(elemCompName(e, u.Elem()), e.elemSort(u.Elem()))
	case *types.Pointer:
		e.wholeComps(u.Elem(), w)
	case *types.Signature:
		w.full = true
		w.why = "callback passed to an external function"
	case *types.Interface:
		// an interface argument may hold a pointer to anything
	}
}

// contractWrites: components named by a contract's modifies clauses.
func (e *Enc) contractWrites(c *Contract, callee *ssa.Function, w *writeSet) {
	if !c.HasMod && !c.External && !c.Trusted {
		// contract without modifies clause: treated as modifies nothing (its frame is proved)
	}
	for _, m := range c.Modifies {
		for _, mc := range e.modClauseComps(c, callee, m) {
			w.add(mc, e.comps[mc])
		}
	}
	w.prefixes = append(w.prefixes, c.ModComps...)
}

// loopHeader: invariants established on entry, state havocked, invariants assumed.
func (f *Frame) loopHeader(b *ssa.BasicBlock, preds []*ssa.BasicBlock, conds []string) {
	e := f.e
	ord := f.hdrOrd[b]
	f.loopPre[b] = f.st.clone()
	// entry values of phis
	entry := map[string]CVal{}
	var phis []*ssa.Phi
	for _, in := range b.Instrs {
		phi, ok := in.(*ssa.Phi)
		if !ok {
			break
		}
		phis = append(phis, phi)
		var ts []string
		for _, p := range preds {
			ts = append(ts, f.val(phi.Edges[predIndex(b, p)]))
		}
		expr := ts[len(ts)-1]
		for k := len(ts) - 2; k >= 0; k-- {
			if ts[k] != expr {
				expr = fmt.Sprintf("(ite %s %s %s)", conds[k], ts[k], expr)
			}
		}
		v := e.define(f.prefix+phi.Name()+".entry", e.sortOf(phi.Type()), expr)
		if phi.Comment != "" {
			entry[phi.Comment] = CVal{S: v, T: phi.Type()}
		}
		entry["$"+phi.Name()] = CVal{S: v, T: phi.Type()}
		f.addIter(phi, v, entry)
	}
	if f.depth > 0 {
		// loops in inlined bodies are not supported: havoc everything
		e.fullHavoc(f.st, "loop inside inlined "+f.fn.Name())
		for _, phi := range phis {
			f.vals[phi] = e.symbolic(f.prefix+phi.Name(), phi.Type(), f.st, f.reach)
		}
		return
	}
	invs := f.invariantsFor(ord)
	// writes
	w := &writeSet{comps: map[string]string{}}
	e.staticWrites(f.fn, f.loopBlocks(b), w, 0, map[*ssa.Function]bool{})
	var wnames []string
	for n := range w.comps {
		wnames = append(wnames, n)
	}
	sort.Strings(wnames)
	e.note("loop %d of %s may write: %s %s", ord, f.fn.Name(), strings.Join(wnames, " "), strings.Join(w.prefixes, " "))
	// make sure written components exist in the pre-state (so that auto-frame can relate them)
	for _, n := range wnames {
		e.comp(f.st, n, w.comps[n])
	}
	pre := f.st.clone()
	// entry obligations
	for _, inv := range invs {
		env := f.invEnv(b, entry, f.st)
		goal := env.evalBool(inv.Expr)
		f.reportEnvErrs(env, inv)
		e.oblige("inv", fmt.Sprintf("%s#inv[%d.%s].entry", e.unit.Key(), ord, inv.Label), inv.Label, f.reach, goal, inv.Line)
	}
	// havoc
	if w.full {
		e.fullHavoc(f.st, fmt.Sprintf("loop %d of %s: %s", ord, f.fn.Name(), w.why))
	} else {
		if len(w.prefixes) > 0 {
			e.havocMatching(f.st, w.prefixes)
		}
		for _, n := range wnames {
			e.havocComp(f.st, n)
		}
		na := e.freshConst("alloc", "Int")
		e.emit(fmt.Sprintf("(assert (>= %s %s))", na, f.st.alloc))
		f.st.alloc = na
	}
	cur := map[string]CVal{}
	for _, phi := range phis {
		v := e.symbolic(f.prefix+phi.Name(), phi.Type(), f.st, f.reach)
		f.vals[phi] = v
		if phi.Comment != "" {
			cur[phi.Comment] = CVal{S: v, T: phi.Type()}
		}
		cur["$"+phi.Name()] = CVal{S: v, T: phi.Type()}
		f.addIter(phi, v, cur)
		if phi.Comment == "rangeindex" {
			// range loops: the hidden index starts at -1 and only grows (inductive by construction: next = index+1),
			// and the loop is left as soon as index+1 reaches the length evaluated before the loop
			e.assume(f.reach, e.idxLe(e.idxLit("-1"), v))
			if n := rangeLimit(b, phi); n != nil {
				e.assume(f.reach, e.idxLe(e.idxAdd(v, e.idxLit("1")), f.idxVal(n)))
			}
		}
	}
	// assume invariants
	for _, inv := range invs {
		env := f.invEnv(b, cur, f.st)
		e.assume(f.reach, env.evalBool(inv.Expr))
	}
	// automatic frame invariant: locations allocated before the call and not in modifies are unchanged
	if !w.full && f.top && e.unit.HasMod {
		for _, n := range wnames {
			if matchPrefix(n, e.unit.ModComps) {
				continue
			}
			if fact := e.frameFact(n, f.entrySt, f.st, f.modRefs(n)); fact != "" {
				// it holds on entry iff it held for the pre-loop state; proved by back-edge obligations
				e.assume(f.reach, fact)
				_ = pre
			}
		}
	}
	f.loopInfo(b, w, wnames)
}

// addIter defines the pseudo variable iter (number of completed iterations) for range loops.
func (f *Frame) addIter(phi *ssa.Phi, v string, m map[string]CVal) {
	if phi.Comment == "rangeindex" {
		m["iter"] = CVal{S: f.e.idxAdd(v, f.e.idxLit("1")), T: phi.Type()}
		// ranged: the slice / array / string the loop ranges over (it may have no name in the source)
		if n := rangeLimit(phi.Block(), phi); n != nil {
			if c, ok := n.(*ssa.Call); ok {
				if b, ok := c.Call.Value.(*ssa.Builtin); ok && b.Name() == "len" && len(c.Call.Args) == 1 {
					if _, known := f.vals[c.Call.Args[0]]; known {
						m["ranged"] = CVal{S: f.val(c.Call.Args[0]), T: c.Call.Args[0].Type()}
					}
				}
			}
		}
	}
}

// rangeLimit finds N in the header pattern "t = phi+1; if t < N" when N is computed before the loop.
func rangeLimit(h *ssa.BasicBlock, phi *ssa.Phi) ssa.Value {
	var next ssa.Value
	for _, in := range h.Instrs {
		if b, ok := in.(*ssa.BinOp); ok {
			if b.Op == token.ADD && b.X == phi {
				next = b
			}
			if b.Op == token.LSS && next != nil && b.X == next {
				switch n := b.Y.(type) {
				case *ssa.Const:
					return n
				case ssa.Instruction:
					if n.Block() != h && n.Block().Dominates(h) {
						return b.Y
					}
				case *ssa.Parameter:
					return n
				}
			}
		}
	}
	return nil
}

type loopMeta struct {
	w      *writeSet
	wnames []string
}

var loopMetas = map[*Frame]map[*ssa.BasicBlock]*loopMeta{}

func (f *Frame) loopInfo(b *ssa.BasicBlock, w *writeSet, wnames []string) {
	if loopMetas[f] == nil {
		loopMetas[f] = map[*ssa.BasicBlock]*loopMeta{}
	}
	loopMetas[f][b] = &loopMeta{w, wnames}
}

func (f *Frame) invariantsFor(ord int) []*Clause {
	var r []*Clause
	for _, c := range f.e.unit.Invs {
		if c.Loop == ord {
			if c.Label == "" {
				c.Label = fmt.Sprintf("i%d", len(r)+1)
			}
			r = append(r, c)
		}
	}
	return r
}

func (f *Frame) invEnv(h *ssa.BasicBlock, phis map[string]CVal, st *State) *CEnv {
	errs := []string{}
	for _, in := range h.Instrs {
		if nx, ok := in.(*ssa.Next); ok && !nx.IsString {
			if rng, ok := nx.Iter.(*ssa.Range); ok {
				mt := rng.X.Type().Underlying().(*types.Map)
				comp := seenComp(f, rng)
				sortName := fmt.Sprintf("(Array %s Bool)", f.e.sortOf(mt.Key()))
				cp := map[string]CVal{}
				for k, v := range phis {
					cp[k] = v
				}
				cp["$seen"] = CVal{S: f.e.comp(st, comp, sortName), T: mt.Key()}
				cp["iter"] = CVal{S: f.e.comp(st, countComp(f, rng), f.e.idxSort()), T: intT}
				phis = cp
			}
		}
	}
	return &CEnv{e: f.e, vars: f.params, st: st, old: f.entrySt, pkg: f.fn.Pkg.Pkg, frame: f, at: h, phis: phis, lets: f.e.unit.Lets, errs: &errs}
}

func (f *Frame) reportEnvErrs(env *CEnv, cl *Clause) {
	for _, m := range *env.errs {
		f.e.P.contractError("%s: %s", cl.Line, m)
	}
	*env.errs = nil
}

// backEdge: invariants re-established.
func (f *Frame) backEdge(from, to *ssa.BasicBlock, cond string) {
	e := f.e
	if f.depth > 0 {
		return
	}
	ord := f.hdrOrd[to]
	vals := map[string]CVal{}
	pi := predIndex(to, from)
	for _, in := range to.Instrs {
		phi, ok := in.(*ssa.Phi)
		if !ok {
			break
		}
		v := f.val(phi.Edges[pi])
		if phi.Comment != "" {
			vals[phi.Comment] = CVal{S: v, T: phi.Type()}
		}
		vals["$"+phi.Name()] = CVal{S: v, T: phi.Type()}
		f.addIter(phi, v, vals)
	}
	for _, inv := range f.invariantsFor(ord) {
		env := f.invEnv(to, vals, f.st)
		goal := env.evalBool(inv.Expr)
		f.reportEnvErrs(env, inv)
		e.oblige("inv", fmt.Sprintf("%s#inv[%d.%s].back@%d", e.unit.Key(), ord, inv.Label, f.backOrd(from, to)), inv.Label, cond, goal, inv.Line)
	}
	if lm := loopMetas[f][to]; lm != nil && !lm.w.full && f.top && e.unit.HasMod {
		for _, n := range lm.wnames {
			if matchPrefix(n, e.unit.ModComps) {
				continue
			}
			if fact := e.frameFact(n, f.entrySt, f.st, f.modRefs(n)); fact != "" {
				e.oblige("frame", fmt.Sprintf("%s#frame[loop%d.%s]@%d", e.unit.Key(), ord, n, f.backOrd(from, to)), "frame", cond, fact, "")
			}
		}
	}
}

func (f *Frame) backOrd(from, to *ssa.BasicBlock) int {
	k := 0
	for _, p := range to.Preds {
		if f.back[[2]int{p.Index, to.Index}] {
			k++
			if p == from {
				return k
			}
		}
	}
	return k
}

// resolveLocal finds the value of a Go local variable visible at loop header h.
func (f *Frame) resolveLocal(name string, h *ssa.BasicBlock, st *State) (CVal, bool) {
	var best ssa.Value
	var bestAddr bool
	bestDepth := -1
	consider := func(v ssa.Value, isAddr bool, pos int) {
		var blk *ssa.BasicBlock
		switch d := v.(type) {
		case *ssa.Parameter, *ssa.Const, *ssa.Global, *ssa.FreeVar, *ssa.Function:
			if bestDepth < 0 {
				best, bestAddr, bestDepth = v, isAddr, 0
			}
			return
		case ssa.Instruction:
			blk = d.Block()
		}
		if blk == nil {
			return
		}
		if h != nil {
			if blk == h {
				if _, isPhi := v.(*ssa.Phi); !isPhi {
					return
				}
			} else if !blk.Dominates(h) {
				return
			}
		}
		d := domDepth(blk)*100000 + pos
		if d > bestDepth {
			best, bestAddr, bestDepth = v, isAddr, d
		}
	}
	// a variable that lives in memory (captured by a closure, address taken): its Alloc carries the name
	for _, b := range f.fn.Blocks {
		for i, in := range b.Instrs {
			if a, ok := in.(*ssa.Alloc); ok && a.Comment == name {
				consider(a, true, i)
			}
		}
	}
	if best != nil {
		p := f.placeOf(best)
		return CVal{S: f.e.load(st, p), T: p.finalType(), Place: p}, true
	}
	for _, b := range f.fn.Blocks {
		for i, in := range b.Instrs {
			switch d := in.(type) {
			case *ssa.DebugRef:
				if id, ok := d.Expr.(*ast.Ident); ok && id.Name == name {
					if v, isVar := d.Object().(*types.Var); isVar && v.IsField() {
						continue // the Sel identifier of a field selector, not a local
					}
					consider(d.X, d.IsAddr, i)
				}
			case *ssa.Phi:
				if d.Comment == name {
					consider(d, false, i)
				}
			}
		}
	}
	if best == nil {
		for _, p := range f.fn.Params {
			if p.Name() == name {
				best = p
			}
		}
		if best == nil {
			return CVal{}, false
		}
	}
	if bestAddr {
		p := f.placeOf(best)
		return CVal{S: f.e.load(st, p), T: p.finalType(), Place: p}, true
	}
	if _, ok := f.vals[best]; !ok {
		if _, isConst := best.(*ssa.Const); !isConst {
			if _, isG := best.(*ssa.Global); !isG {
				return CVal{}, false
			}
		}
	}
	return CVal{S: f.val(best), T: best.Type()}, true
}

func (f *Frame) hasLocal(name string) bool {
	for _, p := range f.fn.Params {
		if p.Name() == name {
			return true
		}
	}
	for _, b := range f.fn.Blocks {
		for _, in := range b.Instrs {
			if d, ok := in.(*ssa.DebugRef); ok {
				if id, ok := d.Expr.(*ast.Ident); ok && id.Name == name {
					if v, isVar := d.Object().(*types.Var); isVar && v.IsField() {
						continue
					}
					return true
				}
			}
		}
	}
	return false
}

func domDepth(b *ssa.BasicBlock) int {
	d := 0
	for x := b.Idom(); x != nil; x = x.Idom() {
		d++
	}
	return d
}

// mapNext: ghost "seen" set for map range loops — hook for invariants (seen keys are distinct, in dom).
func (f *Frame) mapNext(in *ssa.Next, rng *ssa.Range, ok, k string) {
	e := f.e
	mt := rng.X.Type().Underlying().(*types.Map)
	comp := seenComp(f, rng)
	ks := e.sortOf(mt.Key())
	sortName := fmt.Sprintf("(Array %s Bool)", ks)
	seen := e.comp(f.st, comp, sortName)
	md, _ := e.mapComps(mt)
	hd := e.comp(f.st, md, e.comps[md])
	m := f.val(rng.X)
	// a yielded key is in the map and was not yielded before; when the iteration ends every key was yielded
	e.assume(f.reach, fmt.Sprintf("(=> %s (not (select %s %s)))", ok, seen, k))
	e.assume(f.reach, fmt.Sprintf("(=> (not %s) (forall ((|q.k| %s)) (! (=> (and (not (= %s 0)) (select (select %s %s) |q.k|)) (select %s |q.k|)) :pattern ((select %s |q.k|)))))", ok, ks, m, hd, m, seen, seen))
	e.setComp(f.st, comp, fmt.Sprintf("(ite %s (store %s %s true) %s)", ok, seen, k, seen))
	// ghost counter of yielded keys; when the iteration ends it equals len(map)
	cnt := countComp(f, rng)
	cur := e.comp(f.st, cnt, e.idxSort())
	e.assume(f.reach, fmt.Sprintf("(=> (not %s) (= %s (%s (select %s %s))))", ok, cur, e.ufCard(mt), hd, m))
	e.assume(f.reach, fmt.Sprintf("(=> (= %s 0) (= %s %s))", m, e.idxLit("0"), cur))
	e.setComp(f.st, cnt, fmt.Sprintf("(ite %s %s %s)", ok, e.idxAdd(cur, e.idxLit("1")), cur))
}

func countComp(f *Frame, rng *ssa.Range) string {
	return "GHseen_n_" + sanitize(f.prefix+rng.Name())
}

func seenComp(f *Frame, rng *ssa.Range) string {
	return "GHseen_" + sanitize(f.prefix+rng.Name())
}

// runDefers applies deferred calls in LIFO order.
func (f *Frame) deferFlag(d *ssa.Defer) string {
	for i, x := range f.defers {
		if x == d {
			return fmt.Sprintf("GHdefer_%s%d", sanitize(f.prefix), i)
		}
	}
	return "GHdefer_" + sanitize(f.prefix) + "x"
}

func (f *Frame) runDefers() {
	e := f.e
	// LIFO over the defer statements of the function; each runs only if it was registered on this path.
	// (A defer statement inside a loop registers at most one call in this model.)
	for i := len(f.defers) - 1; i >= 0; i-- {
		d := f.defers[i]
		flag := e.comp(f.st, f.deferFlag(d), "Bool")
		if flag == "false" {
			continue
		}
		if flag == "true" {
			f.call(d, &d.Call, nil)
			continue
		}
		st0, r0 := f.st.clone(), f.reach
		f.reach = e.define(f.prefix+"dr", "Bool", fmt.Sprintf("(and %s %s)", r0, flag))
		f.call(d, &d.Call, nil)
		skip := e.define(f.prefix+"dr", "Bool", fmt.Sprintf("(and %s (not %s))", r0, flag))
		conds := []string{f.reach, skip}
		f.st = e.mergeStates(conds, []*State{f.st, st0})
		f.reach = e.define(f.prefix+"dr", "Bool", fmt.Sprintf("(or %s %s)", conds[0], conds[1]))
	}
}

// frameFact: every location of component comp that was allocated at entry and is not listed in
// excl is unchanged between states a (entry) and b.
func (e *Enc) frameFact(comp string, a, b *State, excl []string) string {
	if strings.HasPrefix(comp, "GHseen_") || strings.HasPrefix(comp, "GHdefer_") || strings.HasPrefix(comp, "L_") {
		return "" // ghost iteration / defer-registration state, not program memory
	}
	sortName := e.comps[comp]
	ta, tb := e.comp(a, comp, sortName), e.comp(b, comp, sortName)
	if ta == tb {
		return ""
	}
	if !strings.HasPrefix(sortName, "(Array Int ") {
		// a global scalar component
		for _, x := range excl {
			if x == "*" {
				return ""
			}
		}
		return fmt.Sprintf("(= %s %s)", tb, ta)
	}
	var conds []string
	conds = append(conds, fmt.Sprintf("(<= |q.r| %s)", a.alloc))
	for _, x := range excl {
		if x == "*" {
			return ""
		}
		conds = append(conds, fmt.Sprintf("(not (= |q.r| %s))", x))
	}
	return fmt.Sprintf("(forall ((|q.r| Int)) (=> (and %s) (= (select %s |q.r|) (select %s |q.r|))))", strings.Join(conds, " "), tb, ta)
}

// freshBase: the address is a field / element of an object allocated in the same function (directly, not
// through a loaded pointer).
func freshBase(v ssa.Value) bool {
	for i := 0; i < 16; i++ {
		switch x := v.(type) {
		case *ssa.Alloc:
			return true
		case *ssa.FieldAddr:
			v = x.X
		case *ssa.IndexAddr:
			if _, isSlice := x.X.Type().Underlying().(*types.Slice); isSlice {
				if ms, ok := x.X.(*ssa.MakeSlice); ok {
					_ = ms
					return true
				}
				if sl, ok := x.X.(*ssa.Slice); ok {
					v = sl.X
					continue
				}
				return false
			}
			v = x.X
		default:
			return false
		}
	}
	return false
}
