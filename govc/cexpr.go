package main

// Evaluation of contract expressions (Go expression syntax + a few pseudo calls) to SMT terms.

import (
	"fmt"
	"go/ast"
	"go/constant"
	"go/token"
	"go/types"
	"strconv"
	"strings"

	"golang.org/x/tools/go/ssa"
)

type CVal struct {
	S      string
	T      types.Type     // nil for untyped constants / nil literal
	K      constant.Value // untyped constant
	IsNil  bool
	IsType types.Type // the expression denotes a type
	IsTag  bool       // value is a dynamic type tag (SMT Int)
	Place  *Place     // when the value was read from a place (for modifies clauses)
	Seq    string     // for elems(): nothing
}

type CEnv struct {
	e     *Enc
	vars  map[string]CVal
	st    *State
	old   *State
	pkg   *types.Package
	frame *Frame          // for resolving Go locals in invariants
	sel   *Frame          // frame whose last select statement selindex / selok / selrecv refer to (postconditions)
	at    *ssa.BasicBlock // loop header the invariant belongs to
	phis  map[string]CVal // loop-carried variables (override)
	lets  []*LetDef
	errs  *[]string
	inOld bool
	depth int
}

func (c *CEnv) fail(format string, args ...any) CVal {
	msg := fmt.Sprintf(format, args...)
	if c.errs != nil {
		*c.errs = append(*c.errs, msg)
	}
	return CVal{S: "false", T: types.Typ[types.Bool]}
}

var boolT = types.Typ[types.Bool]
var intT = types.Typ[types.Int]

func (c *CEnv) sub(vars map[string]CVal) *CEnv {
	n := *c
	n.vars = map[string]CVal{}
	for k, v := range c.vars {
		n.vars[k] = v
	}
	for k, v := range vars {
		n.vars[k] = v
	}
	return &n
}

func (c *CEnv) evalBool(x ast.Expr) string {
	v := c.ev(x)
	if v.T == nil && v.K != nil && v.K.Kind() == constant.Bool {
		if constant.BoolVal(v.K) {
			return "true"
		}
		return "false"
	}
	if v.T == nil || !isBool(v.T) {
		c.fail("expression is not boolean: %s", exprString(x))
		return "false"
	}
	return v.S
}

func exprString(x ast.Expr) string {
	return types.ExprString(x)
}

func (c *CEnv) lit(v CVal, t types.Type) CVal {
	// materialise an untyped constant at type t
	e := c.e
	if v.IsNil {
		return CVal{S: e.zero(t), T: t}
	}
	if v.K == nil {
		return v
	}
	switch {
	case isInteger(t):
		k := constant.ToInt(v.K)
		if k.Kind() != constant.Int {
			c.fail("constant %s is not an integer", v.K)
			return CVal{S: e.intLit(t, "0"), T: t}
		}
		return CVal{S: e.intLit(t, k.ExactString()), T: t}
	case isFloat(t):
		f, _ := constant.Float64Val(constant.ToFloat(v.K))
		cc := ssa.NewConst(constant.MakeFloat64(f), t)
		return CVal{S: e.constVal(cc), T: t}
	case isString(t):
		return CVal{S: smtString(constant.StringVal(v.K)), T: t}
	case isBool(t):
		if v.K.Kind() != constant.Bool {
			c.fail("cannot use constant %s as a boolean", v.K)
			return CVal{S: "false", T: t}
		}
		if constant.BoolVal(v.K) {
			return CVal{S: "true", T: t}
		}
		return CVal{S: "false", T: t}
	}
	c.fail("cannot use constant %s at type %s", v.K, t)
	return CVal{S: e.zero(t), T: t}
}

func (c *CEnv) defaultLit(v CVal) CVal {
	if v.T != nil || v.K == nil {
		return v
	}
	switch v.K.Kind() {
	case constant.Int:
		return c.lit(v, intT)
	case constant.Float:
		return c.lit(v, types.Typ[types.Float64])
	case constant.String:
		return c.lit(v, types.Typ[types.String])
	case constant.Bool:
		return c.lit(v, boolT)
	}
	return v
}

func (c *CEnv) unify(a, b CVal) (CVal, CVal) {
	if a.T == nil && b.T != nil {
		a = c.lit(a, b.T)
	} else if b.T == nil && a.T != nil {
		b = c.lit(b, a.T)
	} else if a.T == nil && b.T == nil {
		a, b = c.defaultLit(a), c.defaultLit(b)
	}
	// a pointer compared with / selected against an interface value is implicitly converted (Go assignability)
	if a.T != nil && b.T != nil {
		if isIface(a.T) && isPointerLike(b.T) {
			b = CVal{S: fmt.Sprintf("(ite (= %s 0) (mkI %d 0) (mkI %d %s))", b.S, c.e.typeTag(b.T), c.e.typeTag(b.T), b.S), T: a.T}
		} else if isIface(b.T) && isPointerLike(a.T) {
			a = CVal{S: fmt.Sprintf("(ite (= %s 0) (mkI %d 0) (mkI %d %s))", a.S, c.e.typeTag(a.T), c.e.typeTag(a.T), a.S), T: b.T}
		}
	}
	// mode bv: different integer widths are widened to the larger (spec arithmetic convenience)
	if c.e.bv() && a.T != nil && b.T != nil && isInteger(a.T) && isInteger(b.T) {
		wa, sa := intWidth(a.T.Underlying().(*types.Basic))
		wb, sb := intWidth(b.T.Underlying().(*types.Basic))
		if wa < wb {
			a = CVal{S: c.e.resizeBV(a.S, wa, wb, sa), T: b.T}
		} else if wb < wa {
			b = CVal{S: c.e.resizeBV(b.S, wb, wa, sb), T: a.T}
		}
	}
	return a, b
}

func (c *CEnv) resolveType(x ast.Expr) types.Type {
	switch x := x.(type) {
	case *ast.Ident:
		if c.pkg != nil {
			if o := c.pkg.Scope().Lookup(x.Name); o != nil {
				if tn, ok := o.(*types.TypeName); ok {
					return tn.Type()
				}
			}
		}
		if o := types.Universe.Lookup(x.Name); o != nil {
			if tn, ok := o.(*types.TypeName); ok {
				return tn.Type()
			}
		}
	case *ast.StarExpr:
		if t := c.resolveType(x.X); t != nil {
			return types.NewPointer(t)
		}
	case *ast.ParenExpr:
		return c.resolveType(x.X)
	case *ast.ArrayType:
		if t := c.resolveType(x.Elt); t != nil {
			if x.Len == nil {
				return types.NewSlice(t)
			}
			return types.NewArray(t, 1)
		}
	case *ast.MapType:
		k, v := c.resolveType(x.Key), c.resolveType(x.Value)
		if k != nil && v != nil {
			return types.NewMap(k, v)
		}
	case *ast.SelectorExpr:
		if id, ok := x.X.(*ast.Ident); ok {
			if p := c.importedPkg(id.Name); p != nil {
				if o := p.Scope().Lookup(x.Sel.Name); o != nil {
					if tn, ok := o.(*types.TypeName); ok {
						return tn.Type()
					}
				}
			}
		}
	}
	return nil
}

func (c *CEnv) importedPkg(name string) *types.Package {
	if c.pkg == nil {
		return nil
	}
	for _, p := range c.pkg.Imports() {
		if p.Name() == name {
			return p
		}
	}
	// any loaded package with that name
	if c.e != nil && c.e.P != nil {
		for _, p := range c.e.P.allTypesPkgs {
			if p.Name() == name {
				return p
			}
		}
	}
	return nil
}

func (c *CEnv) ev(x ast.Expr) CVal {
	e := c.e
	switch x := x.(type) {
	case *ast.ParenExpr:
		return c.ev(x.X)
	case *ast.BasicLit:
		return CVal{K: constant.MakeFromLiteral(x.Value, x.Kind, 0)}
	case *ast.Ident:
		return c.ident(x.Name)
	case *ast.UnaryExpr:
		if x.Op == token.AND {
			// &g for a package-level variable g: the same pseudo reference the encoder uses for its address
			if id, ok := x.X.(*ast.Ident); ok && c.pkg != nil {
				if o, ok := c.pkg.Scope().Lookup(id.Name).(*types.Var); ok {
					if g := e.P.globalFor(o); g != nil {
						return CVal{S: e.funcValue("globaladdr." + g.String()), T: types.NewPointer(o.Type())}
					}
				}
			}
			// &x.f for a field of a heap object: the same term the encoder uses when the address is passed as a value
			if v := c.ev(x.X); v.Place != nil && v.Place.kind == "field" && len(v.Place.sub) == 0 {
				fn := "faddr_" + v.Place.comp
				if !e.ufSeen[fn] {
					e.ufSeen[fn] = true
					e.ufDecls = append(e.ufDecls, fmt.Sprintf("(declare-fun %s (Int) Int)", fn))
				}
				return CVal{S: fmt.Sprintf("(%s %s)", fn, v.Place.ref), T: types.NewPointer(v.T)}
			}
			return c.fail("unsupported operand of & (only package-level variables and fields of heap objects)")
		}
		v := c.ev(x.X)
		switch x.Op {
		case token.NOT:
			if v.T == nil && v.K != nil {
				return CVal{K: constant.UnaryOp(token.NOT, v.K, 0)}
			}
			return CVal{S: "(not " + v.S + ")", T: boolT}
		case token.SUB:
			if v.T == nil && v.K != nil {
				return CVal{K: constant.UnaryOp(token.SUB, v.K, 0)}
			}
			switch {
			case isFloat(v.T):
				return CVal{S: "(fp.neg " + v.S + ")", T: v.T}
			case e.bv():
				return CVal{S: "(bvneg " + v.S + ")", T: v.T}
			}
			return CVal{S: "(- " + v.S + ")", T: v.T}
		case token.ADD:
			return v
		}
		return c.fail("unsupported unary %s", x.Op)
	case *ast.StarExpr:
		if t := c.resolveType(x); t != nil {
			return CVal{IsType: t}
		}
		v := c.ev(x.X)
		pt, ok := v.T.Underlying().(*types.Pointer)
		if !ok {
			return c.fail("deref of non-pointer %s", exprString(x.X))
		}
		p := e.derefPlace(v.S, pt.Elem())
		return CVal{S: e.load(c.st, p), T: pt.Elem(), Place: p}
	case *ast.BinaryExpr:
		return c.binary(x)
	case *ast.CallExpr:
		return c.call(x)
	case *ast.SelectorExpr:
		return c.selector(x)
	case *ast.IndexExpr:
		return c.index(x)
	case *ast.SliceExpr:
		v := c.ev(x.X)
		if v.T != nil && isString(v.T) {
			lo := CVal{S: "0", T: intT}
			if x.Low != nil {
				lo = c.lit(c.ev(x.Low), intT)
			}
			hi := CVal{S: "(str.len " + v.S + ")", T: intT}
			if x.High != nil {
				hi = c.lit(c.ev(x.High), intT)
			}
			return CVal{S: fmt.Sprintf("(str.substr %s %s (- %s %s))", v.S, lo.S, hi.S, lo.S), T: v.T}
		}
		if v.T != nil {
			if _, ok := v.T.Underlying().(*types.Slice); ok {
				lo := CVal{S: e.idxLit("0"), T: intT}
				if x.Low != nil {
					lo = c.toIdx(c.ev(x.Low))
				}
				hi := CVal{S: "(s_len " + v.S + ")", T: intT}
				if x.High != nil {
					hi = c.toIdx(c.ev(x.High))
				}
				return CVal{S: fmt.Sprintf("(mkSlice (s_arr %s) %s %s %s)", v.S, e.idxAdd("(s_off "+v.S+")", lo.S), e.idxSub(hi.S, lo.S), e.idxSub("(s_cap "+v.S+")", lo.S)), T: v.T}
			}
		}
		return c.fail("unsupported slice expression %s", exprString(x))
	case *ast.TypeAssertExpr:
		v := c.ev(x.X)
		t := c.resolveType(x.Type)
		if t == nil || v.T == nil || !isIface(v.T) {
			return c.fail("bad type assertion %s", exprString(x))
		}
		if isIface(t) {
			return CVal{S: v.S, T: t}
		}
		if isPointerLike(t) {
			return CVal{S: "(i_ref " + v.S + ")", T: t}
		}
		_, unbox := e.boxFn(t)
		return CVal{S: fmt.Sprintf("(%s %s)", unbox, v.S), T: t}
	case *ast.ArrayType, *ast.MapType:
		if t := c.resolveType(x); t != nil {
			return CVal{IsType: t}
		}
	}
	return c.fail("unsupported contract expression %s (%T)", exprString(x), x)
}

func (c *CEnv) toIdx(v CVal) CVal {
	if v.T == nil {
		return c.lit(v, intT)
	}
	if c.e.bv() && isInteger(v.T) {
		w, s := intWidth(v.T.Underlying().(*types.Basic))
		return CVal{S: c.e.resizeBV(v.S, w, 64, s), T: intT}
	}
	return v
}

func (c *CEnv) ident(name string) CVal {
	e := c.e
	switch name {
	case "true":
		return CVal{S: "true", T: boolT}
	case "false":
		return CVal{S: "false", T: boolT}
	case "nil":
		return CVal{IsNil: true}
	}
	if c.phis != nil {
		if v, ok := c.phis[name]; ok {
			return v
		}
	}
	if v, ok := c.vars[name]; ok {
		return v
	}
	for _, l := range c.lets {
		if l.Name == name {
			if c.depth > 40 {
				return c.fail("let recursion")
			}
			n := *c
			n.depth++
			return n.ev(l.Expr)
		}
	}
	if c.frame != nil {
		if v, ok := c.frame.resolveLocal(name, c.at, c.st); ok {
			return v
		}
		// capvar_<name>: the contents of the cell of a captured variable of a function literal under contract, in the
		// state the expression is evaluated in (old(capvar_x) is the contents on entry). For variables the literal or
		// its function assigns more than once; once-assigned ones are the constants cap_<name>.
	}
	// capvar_<name>: see above (postconditions are evaluated without a frame of their own: the unit's frame is `sel`)
	if fr := c.capFrame(); fr != nil && strings.HasPrefix(name, "capvar_") {
		for _, fv := range fr.fn.FreeVars {
			if fv.Name() == name[len("capvar_"):] {
				if pt, ok := fv.Type().(*types.Pointer); ok {
					return CVal{S: e.load(c.st, fr.placeOf(fv)), T: pt.Elem()}
				}
			}
		}
	}
	if c.pkg != nil {
		if o := c.pkg.Scope().Lookup(name); o != nil {
			return c.object(o)
		}
	}
	if sp, ok := e.P.CS.Specs[name]; ok && len(sp.Params) == 0 {
		n := *c
		if tp := e.P.typesByPath[sp.Pkg]; tp != nil {
			n.pkg = tp
		}
		return n.ev(sp.Body)
	}
	if o := types.Universe.Lookup(name); o != nil {
		if tn, ok := o.(*types.TypeName); ok {
			return CVal{IsType: tn.Type()}
		}
	}
	return c.fail("unknown identifier %q in contract", name)
}

func (c *CEnv) capFrame() *Frame {
	if c.frame != nil && c.frame.fn != nil {
		return c.frame
	}
	if c.sel != nil && c.sel.fn != nil {
		return c.sel
	}
	return nil
}

func (c *CEnv) object(o types.Object) CVal {
	e := c.e
	switch o := o.(type) {
	case *types.Const:
		if b, ok := o.Type().Underlying().(*types.Basic); ok && b.Info()&types.IsUntyped != 0 {
			return CVal{K: o.Val()}
		}
		return c.lit(CVal{K: o.Val()}, o.Type())
	case *types.TypeName:
		return CVal{IsType: o.Type()}
	case *types.Var:
		// package-level variable
		if g := e.P.globalFor(o); g != nil {
			p := &Place{kind: "global", comp: globalCompName(g), typ: o.Type()}
			return c.wf(CVal{S: e.load(c.st, p), T: o.Type(), Place: p}, c.st)
		}
	}
	return c.fail("unsupported object %s", o)
}

func (c *CEnv) selector(x *ast.SelectorExpr) CVal {
	e := c.e
	if id, ok := x.X.(*ast.Ident); ok {
		if _, isVar := c.vars[id.Name]; !isVar && (c.phis == nil || c.phis[id.Name].T == nil) {
			if p := c.importedPkg(id.Name); p != nil && (c.frame == nil || !c.frame.hasLocal(id.Name)) {
				if o := p.Scope().Lookup(x.Sel.Name); o != nil {
					return c.object(o)
				}
				return c.fail("unknown %s.%s", id.Name, x.Sel.Name)
			}
		}
	}
	v := c.ev(x.X)
	if v.T == nil {
		return c.fail("selector on untyped %s", exprString(x))
	}
	t := v.T
	if pt, ok := t.Underlying().(*types.Pointer); ok {
		st, ok := pt.Elem().Underlying().(*types.Struct)
		if !ok {
			return c.fail("selector on pointer to non-struct: %s", exprString(x))
		}
		path := findField(st, x.Sel.Name)
		if path == nil {
			return c.fail("no field %s in %s", x.Sel.Name, pt.Elem())
		}
		cur := v
		curT := pt.Elem()
		for k, i := range path {
			s := curT.Underlying().(*types.Struct)
			fld := s.Field(i)
			if k == 0 || isPointerTo(cur.T) {
				var ref string
				if k == 0 {
					ref = v.S
				} else {
					ref = cur.S
				}
				p := e.fieldPlace(ref, curT, i)
				cur = c.wf(CVal{S: e.load(c.st, p), T: fld.Type(), Place: p}, c.st)
			} else {
				si := e.structInfoOf(curT)
				np := (*Place)(nil)
				if cur.Place != nil {
					cp := *cur.Place
					cp.sub = append(append([]subAcc{}, cp.sub...), subAcc{field: i, si: si, result: fld.Type()})
					np = &cp
				}
				cur = CVal{S: fmt.Sprintf("(%s %s)", si.fields[i], cur.S), T: fld.Type(), Place: np}
			}
			curT = fld.Type()
			if p2, ok := curT.Underlying().(*types.Pointer); ok && k < len(path)-1 {
				curT = p2.Elem()
			}
		}
		return cur
	}
	if st, ok := t.Underlying().(*types.Struct); ok {
		path := findField(st, x.Sel.Name)
		if len(path) != 1 {
			return c.fail("no direct field %s in %s", x.Sel.Name, t)
		}
		si := e.structInfoOf(t)
		var np *Place
		if v.Place != nil {
			cp := *v.Place
			cp.sub = append(append([]subAcc{}, cp.sub...), subAcc{field: path[0], si: si, result: st.Field(path[0]).Type()})
			np = &cp
		}
		return CVal{S: fmt.Sprintf("(%s %s)", si.fields[path[0]], v.S), T: st.Field(path[0]).Type(), Place: np}
	}
	return c.fail("selector %s on %s", x.Sel.Name, t)
}

// wf records that a value read from the heap is well-formed (references found in memory are allocated,
// integers lie in their type's range). Sound for every state the encoder builds; skipped under binders.
func (c *CEnv) wf(v CVal, st *State) CVal {
	if v.T == nil || strings.Contains(v.S, "|q.") {
		return v
	}
	if fact := c.e.loadFact(v.S, v.T, st); fact != "true" {
		c.e.emit(fmt.Sprintf("(assert %s)", fact))
	}
	return v
}

func isPointerTo(t types.Type) bool {
	_, ok := t.Underlying().(*types.Pointer)
	return ok
}

// findField returns the index path to a (possibly promoted, one level) field.
func findField(st *types.Struct, name string) []int {
	for i := 0; i < st.NumFields(); i++ {
		if st.Field(i).Name() == name {
			return []int{i}
		}
	}
	for i := 0; i < st.NumFields(); i++ {
		f := st.Field(i)
		if !f.Embedded() {
			continue
		}
		ft := f.Type()
		if p, ok := ft.Underlying().(*types.Pointer); ok {
			ft = p.Elem()
		}
		if s2, ok := ft.Underlying().(*types.Struct); ok {
			for j := 0; j < s2.NumFields(); j++ {
				if s2.Field(j).Name() == name {
					return []int{i, j}
				}
			}
		}
	}
	return nil
}

func (c *CEnv) index(x *ast.IndexExpr) CVal {
	e := c.e
	v := c.ev(x.X)
	if v.T == nil {
		return c.fail("index of untyped")
	}
	switch u := v.T.Underlying().(type) {
	case *types.Slice:
		i := c.toIdx(c.ev(x.Index))
		comp := elemCompName(e, u.Elem())
		p := &Place{kind: "elem", comp: comp, ref: "(s_arr " + v.S + ")", idx: e.idxAdd("(s_off "+v.S+")", i.S), typ: u.Elem(), off: "(s_off " + v.S + ")", rel: i.S}
		return c.wf(CVal{S: e.load(c.st, p), T: u.Elem(), Place: p}, c.st)
	case *types.Array:
		i := c.toIdx(c.ev(x.Index))
		var np *Place
		if v.Place != nil {
			cp := *v.Place
			cp.sub = append(append([]subAcc{}, cp.sub...), subAcc{field: -1, idx: i.S, result: u.Elem()})
			np = &cp
		}
		return CVal{S: fmt.Sprintf("(select %s %s)", v.S, i.S), T: u.Elem(), Place: np}
	case *types.Map:
		k := c.ev(x.Index)
		if k.T == nil {
			k = c.lit(k, u.Key())
		}
		_, mv := e.mapComps(u)
		hv := e.comp(c.st, mv, e.comps[mv])
		return CVal{S: fmt.Sprintf("(select (select %s %s) %s)", hv, v.S, k.S), T: u.Elem()}
	case *types.Basic:
		if isString(v.T) {
			i := c.lit(c.ev(x.Index), intT)
			return CVal{S: fmt.Sprintf("(str.to_code (str.at %s %s))", v.S, i.S), T: types.Typ[types.Int]}
		}
	}
	return c.fail("unsupported index %s", exprString(x))
}

func (c *CEnv) binary(x *ast.BinaryExpr) CVal {
	e := c.e
	switch x.Op {
	case token.LAND, token.LOR:
		a := c.evalBool(x.X)
		if x.Op == token.LAND && a == "false" {
			// statically false (inscope(x) where x is not in scope): the right operand may name x, do not evaluate it
			return CVal{S: "false", T: boolT}
		}
		b := c.evalBool(x.Y)
		op := "and"
		if x.Op == token.LOR {
			op = "or"
		}
		return CVal{S: fmt.Sprintf("(%s %s %s)", op, a, b), T: boolT}
	}
	a, b := c.ev(x.X), c.ev(x.Y)
	// type tags
	if x.Op == token.EQL || x.Op == token.NEQ {
		if a.IsTag || b.IsTag {
			tagOf := func(v CVal) string {
				if v.IsType != nil {
					return fmt.Sprint(e.typeTag(v.IsType))
				}
				if v.IsNil {
					return "0"
				}
				return v.S
			}
			s := fmt.Sprintf("(= %s %s)", tagOf(a), tagOf(b))
			if x.Op == token.NEQ {
				s = "(not " + s + ")"
			}
			return CVal{S: s, T: boolT}
		}
	}
	if a.IsType != nil || b.IsType != nil {
		return c.fail("type used as value in %s", exprString(x))
	}
	if a.T == nil && b.T == nil && a.K != nil && b.K != nil {
		switch x.Op {
		case token.EQL, token.NEQ, token.LSS, token.LEQ, token.GTR, token.GEQ:
			return CVal{K: constant.MakeBool(constant.Compare(a.K, x.Op, b.K))}
		case token.SHL, token.SHR:
			n, _ := constant.Uint64Val(b.K)
			return CVal{K: constant.Shift(a.K, x.Op, uint(n))}
		case token.QUO:
			if a.K.Kind() == constant.Int && b.K.Kind() == constant.Int {
				return CVal{K: constant.BinaryOp(a.K, token.QUO_ASSIGN, b.K)}
			}
		}
		return CVal{K: constant.BinaryOp(a.K, x.Op, b.K)}
	}
	if a.IsNil && b.IsNil {
		return CVal{K: constant.MakeBool(x.Op == token.EQL)}
	}
	a, b = c.unify(a, b)
	t := a.T
	switch x.Op {
	case token.EQL, token.NEQ, token.LSS, token.LEQ, token.GTR, token.GEQ:
		if _, isSlice := t.Underlying().(*types.Slice); isSlice && (x.Op == token.EQL || x.Op == token.NEQ) {
			xa, xb := x.X, x.Y
			_, _ = xa, xb
			// slice == nil compares the array; slice == slice compares the header
			if isNilExpr(x.X) || isNilExpr(x.Y) {
				s := fmt.Sprintf("(= (s_arr %s) (s_arr %s))", a.S, b.S)
				if x.Op == token.NEQ {
					s = "(not " + s + ")"
				}
				return CVal{S: s, T: boolT}
			}
			s := fmt.Sprintf("(= %s %s)", a.S, b.S)
			if x.Op == token.NEQ {
				s = "(not " + s + ")"
			}
			return CVal{S: s, T: boolT}
		}
		return CVal{S: e.cmpOp(x.Op, a.S, b.S, t), T: boolT}
	}
	return CVal{S: e.arith(x.Op, a.S, b.S, t, c), T: t}
}

func isNilExpr(x ast.Expr) bool {
	id, ok := x.(*ast.Ident)
	return ok && id.Name == "nil"
}

// arith: pure arithmetic on values of type t (contract side; Go semantics incl. wrap-around in mode bv,
// mathematical in mode int).
func (e *Enc) arith(op token.Token, x, y string, t types.Type, c *CEnv) string {
	switch {
	case isString(t):
		if op == token.ADD {
			return fmt.Sprintf("(str.++ %s %s)", x, y)
		}
	case isFloat(t):
		m := map[token.Token]string{token.ADD: "fp.add RNE", token.SUB: "fp.sub RNE", token.MUL: "fp.mul RNE", token.QUO: "fp.div RNE"}
		if o, ok := m[op]; ok {
			return fmt.Sprintf("(%s %s %s)", o, x, y)
		}
	case isInteger(t):
		_, signed := intWidth(t.Underlying().(*types.Basic))
		if e.bv() {
			m := map[token.Token]string{token.ADD: "bvadd", token.SUB: "bvsub", token.MUL: "bvmul", token.AND: "bvand", token.OR: "bvor", token.XOR: "bvxor", token.SHL: "bvshl"}
			if o, ok := m[op]; ok {
				return fmt.Sprintf("(%s %s %s)", o, x, y)
			}
			switch op {
			case token.QUO:
				if signed {
					return fmt.Sprintf("(bvsdiv %s %s)", x, y)
				}
				return fmt.Sprintf("(bvudiv %s %s)", x, y)
			case token.REM:
				if signed {
					return fmt.Sprintf("(bvsrem %s %s)", x, y)
				}
				return fmt.Sprintf("(bvurem %s %s)", x, y)
			case token.SHR:
				if signed {
					return fmt.Sprintf("(bvashr %s %s)", x, y)
				}
				return fmt.Sprintf("(bvlshr %s %s)", x, y)
			case token.AND_NOT:
				return fmt.Sprintf("(bvand %s (bvnot %s))", x, y)
			}
		} else {
			switch op {
			case token.ADD:
				return fmt.Sprintf("(+ %s %s)", x, y)
			case token.SUB:
				return fmt.Sprintf("(- %s %s)", x, y)
			case token.MUL:
				return fmt.Sprintf("(* %s %s)", x, y)
			case token.QUO:
				return fmt.Sprintf("(ite (>= %s 0) (div %s %s) (- (div (- %s) %s)))", x, x, y, x, y)
			case token.REM:
				return fmt.Sprintf("(- %s (* %s (ite (>= %s 0) (div %s %s) (- (div (- %s) %s)))))", x, y, x, x, y, x, y)
			}
		}
	}
	if c != nil {
		c.fail("unsupported arithmetic %s on %s", op, t)
	}
	return x
}

func (c *CEnv) call(x *ast.CallExpr) CVal {
	e := c.e
	// conversions T(x)
	if t := c.resolveType(x.Fun); t != nil && len(x.Args) == 1 {
		v := c.ev(x.Args[0])
		return c.convert(v, t)
	}
	name := ""
	if id, ok := x.Fun.(*ast.Ident); ok {
		name = id.Name
	}
	arg := func(i int) ast.Expr {
		if i < len(x.Args) {
			return x.Args[i]
		}
		c.fail("%s: missing argument %d", name, i)
		return &ast.Ident{Name: "false"}
	}
	switch name {
	case "old":
		n := *c
		n.st = c.old
		n.phis = nil
		n.inOld = true
		n.frame = nil
		return n.ev(arg(0))
	case "implies":
		ant := c.evalBool(arg(0))
		if ant == "false" {
			return CVal{S: "true", T: boolT}
		}
		return CVal{S: fmt.Sprintf("(=> %s %s)", ant, c.evalBool(arg(1))), T: boolT}
	case "inscope":
		// inscope(x): the Go local x has a value at this program point (caller-side rules are evaluated at every call
		// of the callee; a rule about a loop-local applies only to the calls inside that loop)
		id, ok := arg(0).(*ast.Ident)
		if !ok {
			return c.fail("inscope(<identifier>)")
		}
		if c.frame != nil {
			if _, ok := c.frame.resolveLocal(id.Name, c.at, c.st); ok {
				return CVal{S: "true", T: boolT}
			}
		}
		return CVal{S: "false", T: boolT}
	case "iff":
		return CVal{S: fmt.Sprintf("(= %s %s)", c.evalBool(arg(0)), c.evalBool(arg(1))), T: boolT}
	case "ite":
		cond := c.evalBool(arg(0))
		a, b := c.unify(c.ev(arg(1)), c.ev(arg(2)))
		return CVal{S: fmt.Sprintf("(ite %s %s %s)", cond, a.S, b.S), T: a.T, IsTag: a.IsTag}
	case "forall", "exists":
		// forall(i, lo, hi, P)   or   forall(i, P)  — i ranges over Go int
		id, ok := arg(0).(*ast.Ident)
		if !ok {
			return c.fail("%s: first argument must be an identifier", name)
		}
		bv := "|q." + id.Name + "|"
		n := c.sub(map[string]CVal{id.Name: {S: bv, T: intT}})
		var body, guard string
		if len(x.Args) == 4 {
			lo, hi := n.toIdx(n.ev(arg(1))), n.toIdx(n.ev(arg(2)))
			guard = fmt.Sprintf("(and %s %s)", e.idxLe(lo.S, bv), e.idxLt(bv, hi.S))
			body = n.evalBool(arg(3))
		} else {
			guard = "true"
			body = n.evalBool(arg(1))
		}
		if name == "forall" {
			return CVal{S: fmt.Sprintf("(forall ((%s %s)) (=> %s %s))", bv, e.idxSort(), guard, body), T: boolT}
		}
		return CVal{S: fmt.Sprintf("(exists ((%s %s)) (and %s %s))", bv, e.idxSort(), guard, body), T: boolT}
	case "forallA":
		// forallA(x, Type, P): x ranges over every value of the sort (no allocation bound) — for axioms
		id, ok := arg(0).(*ast.Ident)
		t := c.resolveType(arg(1))
		if !ok || t == nil {
			return c.fail("%s: need identifier and type", name)
		}
		bv := "|q." + id.Name + "|"
		n := c.sub(map[string]CVal{id.Name: {S: bv, T: t}})
		body := n.evalBool(arg(2))
		return CVal{S: fmt.Sprintf("(forall ((%s %s)) %s)", bv, e.sortOf(t), body), T: boolT}
	case "bytestr":
		// bytestr(bs) = string(bs) for a []byte (the same uninterpreted function the engine uses for the conversion)
		e.bytesDecls()
		sv := c.ev(arg(0))
		sl, ok := sv.T.Underlying().(*types.Slice)
		if !ok {
			return c.fail("bytestr: need a []byte")
		}
		h := e.comp(c.st, elemCompName(e, sl.Elem()), e.elemSort(sl.Elem()))
		return CVal{S: fmt.Sprintf("(go.bytes2str (select %s (s_arr %s)) (s_off %s) (s_len %s))", h, sv.S, sv.S, sv.S), T: types.Typ[types.String]}
	case "runesub", "runecount", "runeat":
		// the string <-> []rune model: runesub(s, a, b) = string([]rune(s)[a:b]), runecount(s) = len([]rune(s)),
		// runeat(s, i) = string([]rune(s)[i])
		e.runeDecls()
		sv := c.ev(arg(0))
		switch name {
		case "runecount":
			return CVal{S: fmt.Sprintf("(go.runecount %s)", sv.S), T: intT}
		case "runeat":
			return CVal{S: fmt.Sprintf("(go.rune2str (select (go.runes %s) %s))", sv.S, c.toIdx(c.ev(arg(1))).S), T: types.Typ[types.String]}
		}
		a, b := c.toIdx(c.ev(arg(1))).S, c.toIdx(c.ev(arg(2))).S
		return CVal{S: fmt.Sprintf("(go.runes2str (go.runes %s) %s (- %s %s))", sv.S, a, b, a), T: types.Typ[types.String]}
	case "forallT", "existsT", "forallU":
		// forallT(x, Type, P): x ranges over all values of the Go type (allocated in the current state);
		// forallU: the same without the allocation bound (also objects allocated later; for entry
		// assumptions about container contents that are used after further allocations)
		id, ok := arg(0).(*ast.Ident)
		t := c.resolveType(arg(1))
		if !ok || t == nil {
			return c.fail("%s: need identifier and type", name)
		}
		bv := "|q." + id.Name + "|"
		n := c.sub(map[string]CVal{id.Name: {S: bv, T: t}})
		body := n.evalBool(arg(2))
		fact := e.typeFact(bv, t, c.st)
		if name == "forallU" {
			fact = strings.ReplaceAll(fact, fmt.Sprintf("(<= (i_ref %s) %s)", bv, c.st.alloc), "true")
			fact = strings.ReplaceAll(fact, fmt.Sprintf("(<= %s %s)", bv, c.st.alloc), "true")
		}
		if name == "forallT" || name == "forallU" {
			return CVal{S: fmt.Sprintf("(forall ((%s %s)) (=> %s %s))", bv, e.sortOf(t), fact, body), T: boolT}
		}
		return CVal{S: fmt.Sprintf("(exists ((%s %s)) (and %s %s))", bv, e.sortOf(t), fact, body), T: boolT}
	case "len", "cap":
		v := c.ev(arg(0))
		if v.T == nil && v.K != nil && v.K.Kind() == constant.String {
			return CVal{K: constant.MakeInt64(int64(len(constant.StringVal(v.K))))}
		}
		if v.T == nil {
			return c.fail("len of untyped")
		}
		switch u := v.T.Underlying().(type) {
		case *types.Slice:
			if name == "cap" {
				return CVal{S: "(s_cap " + v.S + ")", T: intT}
			}
			return CVal{S: "(s_len " + v.S + ")", T: intT}
		case *types.Array:
			return CVal{K: constant.MakeInt64(u.Len())}
		case *types.Map:
			md, _ := e.mapComps(u)
			hd := e.comp(c.st, md, e.comps[md])
			return CVal{S: fmt.Sprintf("(ite (= %s 0) %s (%s (select %s %s)))", v.S, e.idxLit("0"), e.ufCard(u), hd, v.S), T: intT}
		case *types.Basic:
			if isString(v.T) {
				if e.bv() {
					return CVal{S: "((_ int2bv 64) (str.len " + v.S + "))", T: intT}
				}
				return CVal{S: "(str.len " + v.S + ")", T: intT}
			}
		}
		return c.fail("len of %s", v.T)
	case "typeof":
		v := c.ev(arg(0))
		if v.T == nil || !isIface(v.T) {
			return c.fail("typeof needs an interface value")
		}
		return CVal{S: "(i_tag " + v.S + ")", T: intT, IsTag: true}
	case "oneof":
		v := c.ev(arg(0))
		var alts []string
		for _, a := range x.Args[1:] {
			w := c.ev(a)
			if v.IsTag {
				if w.IsType == nil {
					return c.fail("oneof(typeof(x), T...) needs types")
				}
				alts = append(alts, fmt.Sprintf("(= %s %d)", v.S, e.typeTag(w.IsType)))
			} else {
				vv, ww := c.unify(v, w)
				alts = append(alts, e.eqVal(vv.S, ww.S, vv.T))
			}
		}
		if len(alts) == 0 {
			return CVal{S: "false", T: boolT}
		}
		return CVal{S: "(or " + strings.Join(alts, " ") + " false)", T: boolT}
	case "implements":
		v := c.ev(arg(0))
		t := c.resolveType(arg(1))
		if t == nil || !isIface(t) || v.T == nil || !isIface(v.T) {
			return c.fail("implements(x, Iface)")
		}
		return CVal{S: fmt.Sprintf("(%s (i_tag %s))", e.implFn(t), v.S), T: boolT}
	case "fresh":
		v := c.ev(arg(0))
		ref := v.S
		if v.T != nil {
			switch v.T.Underlying().(type) {
			case *types.Slice:
				ref = "(s_arr " + v.S + ")"
			case *types.Interface:
				ref = "(i_ref " + v.S + ")"
			}
		}
		return CVal{S: fmt.Sprintf("(> %s %s)", ref, c.old.alloc), T: boolT}
	case "isalloc":
		v := c.ev(arg(0))
		return CVal{S: fmt.Sprintf("(and (< 0 %s) (<= %s %s))", v.S, v.S, c.st.alloc), T: boolT}
	case "allocated":
		v := c.ev(arg(0))
		return CVal{S: fmt.Sprintf("(<= %s %s)", v.S, c.old.alloc), T: boolT}
	case "arr":
		v := c.ev(arg(0))
		return CVal{S: "(s_arr " + v.S + ")", T: types.NewPointer(intT)}
	case "off":
		v := c.ev(arg(0))
		return CVal{S: "(s_off " + v.S + ")", T: intT}
	case "ref":
		v := c.ev(arg(0))
		return CVal{S: "(i_ref " + v.S + ")", T: types.NewPointer(intT)}
	case "prefixof":
		a, b := c.str(arg(0)), c.str(arg(1))
		return CVal{S: fmt.Sprintf("(str.prefixof %s %s)", a, b), T: boolT}
	case "suffixof":
		a, b := c.str(arg(0)), c.str(arg(1))
		return CVal{S: fmt.Sprintf("(str.suffixof %s %s)", a, b), T: boolT}
	case "contains":
		a, b := c.str(arg(0)), c.str(arg(1))
		return CVal{S: fmt.Sprintf("(str.contains %s %s)", a, b), T: boolT}
	case "at":
		a := c.str(arg(0))
		i := c.lit(c.ev(arg(1)), intT)
		return CVal{S: fmt.Sprintf("(str.at %s %s)", a, i.S), T: types.Typ[types.String]}
	case "substr":
		a := c.str(arg(0))
		i := c.lit(c.ev(arg(1)), intT)
		n := c.lit(c.ev(arg(2)), intT)
		return CVal{S: fmt.Sprintf("(str.substr %s %s %s)", a, i.S, n.S), T: types.Typ[types.String]}
	case "indexof":
		a, b := c.str(arg(0)), c.str(arg(1))
		i := "0"
		if len(x.Args) > 2 {
			i = c.lit(c.ev(arg(2)), intT).S
		}
		return CVal{S: fmt.Sprintf("(str.indexof %s %s %s)", a, b, i), T: intT}
	case "haskey":
		m := c.ev(arg(0))
		mt, ok := m.T.Underlying().(*types.Map)
		if !ok {
			return c.fail("haskey on non-map")
		}
		k := c.ev(arg(1))
		if k.T == nil {
			k = c.lit(k, mt.Key())
		}
		md, _ := e.mapComps(mt)
		hd := e.comp(c.st, md, e.comps[md])
		return CVal{S: fmt.Sprintf("(and (not (= %s 0)) (select (select %s %s) %s))", m.S, hd, m.S, k.S), T: boolT}
	case "seen":
		// seen(k): key k was already yielded by the map range loop the invariant belongs to
		sv, ok := c.phis["$seen"]
		if !ok {
			return c.fail("seen() outside a map range loop invariant")
		}
		k := c.ev(arg(0))
		if k.T == nil {
			k = c.lit(k, sv.T)
		}
		return CVal{S: fmt.Sprintf("(select %s %s)", sv.S, k.S), T: boolT}
	case "upd":
		// upd(a, i, v): array a with index i updated to v
		a := c.ev(arg(0))
		at, ok := a.T.Underlying().(*types.Array)
		if !ok {
			return c.fail("upd on non-array")
		}
		i := c.toIdx(c.ev(arg(1)))
		v := c.ev(arg(2))
		if v.T == nil {
			v = c.lit(v, at.Elem())
		}
		return CVal{S: fmt.Sprintf("(store %s %s %s)", a.S, i.S, v.S), T: a.T}
	case "selindex", "selok", "selrecv":
		// results of the select statement executed last: index of the chosen case, whether a receive delivered a
		// value (channel not closed), and the value received by the k-th receive case (k counts receive cases from 0)
		sf := c.frame
		if sf == nil {
			sf = c.sel
		}
		if sf == nil || sf.lastSel == nil {
			return c.fail("%s: no select statement in this function", name)
		}
		tup := sf.tuples[sf.lastSel]
		tt := sf.lastSel.Type().(*types.Tuple)
		switch name {
		case "selindex":
			return CVal{S: tup[0], T: intT}
		case "selok":
			return CVal{S: tup[1], T: boolT}
		}
		k := 0
		if lit, ok := arg(0).(*ast.BasicLit); ok {
			k, _ = strconv.Atoi(lit.Value)
		}
		if 2+k >= len(tup) {
			return c.fail("selrecv(%d): the select has no such receive case", k)
		}
		return CVal{S: tup[2+k], T: tt.At(2 + k).Type()}
	case "same":
		// same(a, b): identity of values (SMT equality), e.g. for struct values with float fields where Go's ==
		// (IEEE comparison, NaN != NaN) is not what a definition needs
		a, b := c.unify(c.ev(arg(0)), c.ev(arg(1)))
		return CVal{S: fmt.Sprintf("(= %s %s)", a.S, b.S), T: boolT}
	case "inre":
		// inre(s, "go regular expression"): MatchString semantics
		lit, ok := arg(1).(*ast.BasicLit)
		if !ok || lit.Kind != token.STRING {
			return c.fail("inre(s, \"regexp literal\")")
		}
		src, err := strconv.Unquote(lit.Value)
		if err != nil {
			return c.fail("inre: %v", err)
		}
		re, err := regexToSMT(src)
		if err != nil {
			return c.fail("inre: %v", err)
		}
		v := c.ev(arg(0))
		return CVal{S: fmt.Sprintf("(str.in_re %s %s)", v.S, re), T: boolT}
	case "isnan":
		v := c.ev(arg(0))
		return CVal{S: "(fp.isNaN " + v.S + ")", T: boolT}
	case "isinf":
		v := c.ev(arg(0))
		return CVal{S: "(fp.isInfinite " + v.S + ")", T: boolT}
	case "uf":
		// uf("name", ResultType, args...): application of an uninterpreted function
		nm, ok := arg(0).(*ast.BasicLit)
		t := c.resolveType(arg(1))
		if !ok || t == nil {
			return c.fail("uf(\"name\", Type, args...)")
		}
		var as []CVal
		for _, a := range x.Args[2:] {
			as = append(as, c.defaultLit(c.ev(a)))
		}
		return CVal{S: e.ufApp(strings.Trim(nm.Value, `"`), as, t), T: t}
	case "ufelem", "uflen":
		// ufelem("ext:pkg.Func", k, args...): element k of the []string result of a pure external function;
		// uflen("ext:pkg.Func", args...): its length (int mode only)
		nm, ok := arg(0).(*ast.BasicLit)
		if !ok || e.bv() {
			return c.fail(name + "(\"name\", ...) (int mode)")
		}
		first := 1
		var k CVal
		if name == "ufelem" {
			k = c.toIdx(c.ev(arg(1)))
			first = 2
		}
		var as []CVal
		for _, a := range x.Args[first:] {
			as = append(as, c.defaultLit(c.ev(a)))
		}
		base := strings.Trim(nm.Value, `"`)
		if name == "uflen" {
			return CVal{S: e.ufAppSort(base+"#len", as, "Int"), T: types.Typ[types.Int]}
		}
		row := e.ufAppSort(base+"#row", as, fmt.Sprintf("(Array %s String)", e.idxSort()))
		return CVal{S: fmt.Sprintf("(select %s %s)", row, k.S), T: types.Typ[types.String]}
	case "ghost":
		// ghost("name", ResultType, ref): ghost field of an object (a heap component)
		nm, ok := arg(0).(*ast.BasicLit)
		t := c.resolveType(arg(1))
		if !ok || t == nil {
			return c.fail("ghost(\"name\", Type, ref)")
		}
		r := c.ev(arg(2))
		p := &Place{kind: "field", comp: "GH_" + sanitize(strings.Trim(nm.Value, `"`)), ref: r.S, typ: t}
		return CVal{S: e.load(c.st, p), T: t, Place: p}
	}
	// spec function
	if sp, ok := e.P.CS.Specs[name]; ok {
		if len(sp.Params) != len(x.Args) {
			return c.fail("spec %s: arity", name)
		}
		vars := map[string]CVal{}
		for i, p := range sp.Params {
			vars[p] = c.ev(x.Args[i])
		}
		if c.depth > 40 {
			return c.fail("spec recursion in %s", name)
		}
		n := c.sub(vars)
		n.depth++
		n.phis = nil
		n.frame = nil
		n.lets = nil
		if tp := e.P.typesByPath[sp.Pkg]; tp != nil {
			n.pkg = tp
		}
		return n.ev(sp.Body)
	}
	// pure Go function with a contract marked uf, or method call p.M(args) on spec level
	return c.fail("unknown function %s in contract", exprString(x.Fun))
}

func (c *CEnv) str(x ast.Expr) string {
	v := c.ev(x)
	if v.T == nil {
		v = c.lit(v, types.Typ[types.String])
	}
	return v.S
}

func (e *Enc) ufApp(name string, args []CVal, res types.Type) string {
	fn := "uf_" + sanitize(name)
	if !e.ufSeen[fn] {
		e.ufSeen[fn] = true
		var ss []string
		for _, a := range args {
			if a.IsTag {
				ss = append(ss, "Int")
			} else {
				ss = append(ss, e.sortOf(a.T))
			}
		}
		e.ufDecls = append(e.ufDecls, fmt.Sprintf("(declare-fun %s (%s) %s)", fn, strings.Join(ss, " "), e.sortOf(res)))
	}
	if len(args) == 0 {
		return fn
	}
	var as []string
	for _, a := range args {
		as = append(as, a.S)
	}
	return "(" + fn + " " + strings.Join(as, " ") + ")"
}

func (c *CEnv) convert(v CVal, t types.Type) CVal {
	e := c.e
	if v.T == nil {
		return c.lit(v, t)
	}
	from := v.T
	switch {
	case isInteger(from) && isInteger(t):
		fw, fs := intWidth(from.Underlying().(*types.Basic))
		tw, _ := intWidth(t.Underlying().(*types.Basic))
		if e.bv() {
			return CVal{S: e.resizeBV(v.S, fw, tw, fs), T: t}
		}
		return CVal{S: v.S, T: t} // spec-level: mathematical
	case isInteger(from) && isFloat(t):
		_, fs := intWidth(from.Underlying().(*types.Basic))
		eb, sb := 11, 53
		if t.Underlying().(*types.Basic).Kind() == types.Float32 {
			eb, sb = 8, 24
		}
		if e.bv() {
			if fs {
				return CVal{S: fmt.Sprintf("((_ to_fp %d %d) RNE %s)", eb, sb, v.S), T: t}
			}
			return CVal{S: fmt.Sprintf("((_ to_fp_unsigned %d %d) RNE %s)", eb, sb, v.S), T: t}
		}
		return CVal{S: fmt.Sprintf("((_ to_fp %d %d) RNE (to_real %s))", eb, sb, v.S), T: t}
	case isFloat(from) && isInteger(t) && e.bv():
		tw, ts := intWidth(t.Underlying().(*types.Basic))
		if ts {
			return CVal{S: fmt.Sprintf("((_ fp.to_sbv %d) RTZ %s)", tw, v.S), T: t}
		}
		return CVal{S: fmt.Sprintf("((_ fp.to_ubv %d) RTZ %s)", tw, v.S), T: t}
	case isFloat(from) && isFloat(t):
		if e.sortOf(from) == e.sortOf(t) {
			return CVal{S: v.S, T: t}
		}
		eb, sb := 11, 53
		if t.Underlying().(*types.Basic).Kind() == types.Float32 {
			eb, sb = 8, 24
		}
		return CVal{S: fmt.Sprintf("((_ to_fp %d %d) RNE %s)", eb, sb, v.S), T: t}
	case e.sortOf(from) == e.sortOf(t):
		return CVal{S: v.S, T: t}
	}
	if _, toIface := t.Underlying().(*types.Interface); toIface {
		if _, fromIface := from.Underlying().(*types.Interface); !fromIface {
			// T(x) with T an interface type: box the value like ssa.MakeInterface does
			tag := e.typeTag(from)
			if isPointerLike(from) {
				return CVal{S: fmt.Sprintf("(mkI %d %s)", tag, v.S), T: t}
			}
			box, _ := e.boxFn(from)
			return CVal{S: fmt.Sprintf("(%s %d %s)", box, tag, v.S), T: t}
		}
	}
	if isFloat(from) && isInteger(t) && !e.bv() {
		tw, ts := intWidth(t.Underlying().(*types.Basic))
		return CVal{S: e.f2i(v.S, from, tw, ts), T: t}
	}
	return c.fail("unsupported conversion %s → %s in contract", from, t)
}
