package main

import (
	"fmt"
	"go/constant"
	"go/parser"
	"go/token"
	"go/types"
	"math"
	"math/big"
	"sort"
	"strings"

	"golang.org/x/tools/go/ssa"
)

type retPoint struct {
	reach   string
	results []string
	st      *State
}

type Frame struct {
	e       *Enc
	fn      *ssa.Function
	prefix  string
	depth   int
	top     bool
	vals    map[ssa.Value]string
	places  map[ssa.Value]*Place
	tuples  map[ssa.Value][]string
	edge    map[[2]int]string
	exit    map[*ssa.BasicBlock]*State
	breach  map[*ssa.BasicBlock]string
	rets    []retPoint
	panics  []string // reach conditions of panicking paths
	defers  []*ssa.Defer
	st      *State // current state while walking a block
	reach   string // current reach while walking a block
	back    map[[2]int]bool
	hdrOrd  map[*ssa.BasicBlock]int
	entrySt *State
	params  map[string]CVal // contract-visible names at entry
	loopPre map[*ssa.BasicBlock]*State
	chain   []string // inline call chain (function keys) for recursion guard
	region  *regionSpec
	stopAt  *ssa.BasicBlock // commutativity mode: stop the walk after establishing this loop header
	stopped bool
	regex   map[ssa.Value]string // values produced by regexp.MustCompile(<constant>): their RegLan term
	lastSel *ssa.Select          // the select statement executed last on the current path (for selindex / selok / selrecv)
}

// regionSpec restricts encodeBody to one iteration of a map-range loop (commutativity obligations).
type regionSpec struct {
	blocks  map[*ssa.BasicBlock]bool
	header  *ssa.BasicBlock
	next    *ssa.Next
	ok, key string
	phiVals map[*ssa.Phi]string
	outs    []regionOut
	exits   []string
}

type regionOut struct {
	cond string
	st   *State
	phis map[*ssa.Phi]string
}

func (e *Enc) newFrame(fn *ssa.Function, depth int) *Frame {
	e.frameCtr++
	pfx := ""
	if depth > 0 {
		pfx = fmt.Sprintf("i%d.", e.frameCtr)
	}
	return &Frame{e: e, fn: fn, prefix: pfx, depth: depth, vals: map[ssa.Value]string{}, places: map[ssa.Value]*Place{},
		tuples: map[ssa.Value][]string{}, edge: map[[2]int]string{}, exit: map[*ssa.BasicBlock]*State{}, breach: map[*ssa.BasicBlock]string{},
		back: map[[2]int]bool{}, hdrOrd: map[*ssa.BasicBlock]int{}, loopPre: map[*ssa.BasicBlock]*State{}}
}

func (f *Frame) name(v ssa.Value) string {
	return "|" + f.prefix + v.Name() + "|"
}

func ratToFP(r *big.Rat, f32 bool) string {
	fl, _ := r.Float64()
	if f32 {
		bits := math.Float32bits(float32(fl))
		return fmt.Sprintf("((_ to_fp 8 24) #x%08x)", bits)
	}
	bits := math.Float64bits(fl)
	return fmt.Sprintf("((_ to_fp 11 53) #x%016x)", bits)
}

func smtString(s string) string {
	var b strings.Builder
	b.WriteByte('"')
	for _, c := range []byte(s) {
		switch {
		case c == '"':
			b.WriteString(`""`)
		case c >= 32 && c < 127 && c != '\\':
			b.WriteByte(c)
		default:
			fmt.Fprintf(&b, "\\u{%x}", c)
		}
	}
	b.WriteByte('"')
	return b.String()
}

func (e *Enc) constVal(c *ssa.Const) string {
	t := c.Type()
	if c.Value == nil {
		return e.zero(t)
	}
	switch u := t.Underlying().(type) {
	case *types.Basic:
		switch {
		case u.Info()&types.IsBoolean != 0:
			if constant.BoolVal(c.Value) {
				return "true"
			}
			return "false"
		case u.Info()&types.IsInteger != 0:
			v := constant.ToInt(c.Value)
			return e.intLit(t, v.ExactString())
		case u.Info()&types.IsFloat != 0:
			r, _ := new(big.Rat).SetString(constant.ToFloat(c.Value).ExactString())
			if r == nil {
				fl, _ := constant.Float64Val(c.Value)
				r = new(big.Rat).SetFloat64(fl)
			}
			return ratToFP(r, u.Kind() == types.Float32)
		case u.Info()&types.IsString != 0:
			return smtString(constant.StringVal(c.Value))
		}
	}
	return e.zero(t)
}

func (f *Frame) val(v ssa.Value) string {
	switch v := v.(type) {
	case *ssa.Const:
		return f.e.constVal(v)
	case *ssa.Function:
		return f.e.funcValue(v.String())
	case *ssa.Builtin:
		return f.e.funcValue("builtin." + v.Name())
	case *ssa.Global:
		// address of a global used as a value: a stable non-nil pseudo reference
		return f.e.funcValue("globaladdr." + v.String())
	}
	if t, ok := f.vals[v]; ok {
		return t
	}
	if p, ok := f.places[v]; ok && p.kind == "field" && len(p.sub) == 0 {
		// the address of a field of a heap object used as a value (e.g. &x.mutex passed to Lock): a function of the
		// object reference, so that two evaluations of &x.f agree
		fn := "faddr_" + p.comp
		if !f.e.ufSeen[fn] {
			f.e.ufSeen[fn] = true
			f.e.ufDecls = append(f.e.ufDecls, fmt.Sprintf("(declare-fun %s (Int) Int)", fn))
		}
		t := fmt.Sprintf("(%s %s)", fn, p.ref)
		f.vals[v] = t
		return t
	}
	if _, ok := f.places[v]; ok {
		// a derived address escaping as a value: unsupported, give it a stable opaque reference
		n := f.e.declare(f.name(v), "Int")
		f.vals[v] = n
		f.e.note("address of a field/element escapes as a value in %s (treated as opaque)", f.fn.Name())
		return n
	}
	// not yet defined (e.g. value from an unencoded block): symbolic
	n := f.e.declare(f.name(v), f.e.sortOf(v.Type()))
	f.vals[v] = n
	return n
}

func (e *Enc) funcValue(name string) string {
	n := "|fn:" + name + "|"
	if !e.declared[n] {
		e.declared[n] = true
		e.ufDecls = append(e.ufDecls, fmt.Sprintf("(declare-const %s Int)\n(assert (< %s 0))", n, n))
	}
	return n
}

func (f *Frame) setVal(v ssa.Value, term string) {
	f.vals[v] = f.e.define(f.prefix+v.Name(), f.e.sortOf(v.Type()), term)
}

func (f *Frame) placeOf(v ssa.Value) *Place {
	if p, ok := f.places[v]; ok {
		return p
	}
	if g, ok := v.(*ssa.Global); ok {
		elem := g.Type().(*types.Pointer).Elem()
		return &Place{kind: "global", comp: globalCompName(g), typ: elem}
	}
	pt, ok := v.Type().Underlying().(*types.Pointer)
	if !ok {
		panic(fmt.Sprintf("placeOf non-pointer %v", v))
	}
	return f.e.derefPlace(f.val(v), pt.Elem())
}

// safety emits a safety obligation (if the unit claims safety) and assumes the condition afterwards.
func (f *Frame) safety(kind string, cond string, in ssa.Instruction) {
	e := f.e
	want := len(e.unit.SafetyKinds) == 0
	for _, k := range e.unit.SafetyKinds {
		if k == kind {
			want = true
		}
	}
	if e.unit.Safety && want {
		e.safetyOrd[kind]++
		id := fmt.Sprintf("%s#safety[%s#%d]", e.unit.Key(), kind, e.safetyOrd[kind])
		e.oblige("safety", id, kind, f.reach, cond, e.P.pos(in.Pos()))
	}
	f.refine(cond)
}

// refine strengthens the current reach with cond (partial-correctness continuation).
func (f *Frame) refine(cond string) {
	if cond == "true" {
		return
	}
	f.reach = f.e.define(f.prefix+"r", "Bool", fmt.Sprintf("(and %s %s)", f.reach, cond))
}

func (e *Enc) cmpOp(op token.Token, x, y string, t types.Type) string {
	switch {
	case isFloat(t):
		m := map[token.Token]string{token.LSS: "fp.lt", token.LEQ: "fp.leq", token.GTR: "fp.gt", token.GEQ: "fp.geq", token.EQL: "fp.eq"}
		if op == token.NEQ {
			return fmt.Sprintf("(not (fp.eq %s %s))", x, y)
		}
		return fmt.Sprintf("(%s %s %s)", m[op], x, y)
	case isString(t):
		switch op {
		case token.EQL:
			return fmt.Sprintf("(= %s %s)", x, y)
		case token.NEQ:
			return fmt.Sprintf("(not (= %s %s))", x, y)
		case token.LSS:
			return fmt.Sprintf("(str.< %s %s)", x, y)
		case token.LEQ:
			return fmt.Sprintf("(str.<= %s %s)", x, y)
		case token.GTR:
			return fmt.Sprintf("(str.< %s %s)", y, x)
		case token.GEQ:
			return fmt.Sprintf("(str.<= %s %s)", y, x)
		}
	case isInteger(t):
		if op == token.EQL {
			return fmt.Sprintf("(= %s %s)", x, y)
		}
		if op == token.NEQ {
			return fmt.Sprintf("(not (= %s %s))", x, y)
		}
		if e.bv() {
			var m map[token.Token]string
			if isUnsigned(t) {
				m = map[token.Token]string{token.LSS: "bvult", token.LEQ: "bvule", token.GTR: "bvugt", token.GEQ: "bvuge"}
			} else {
				m = map[token.Token]string{token.LSS: "bvslt", token.LEQ: "bvsle", token.GTR: "bvsgt", token.GEQ: "bvsge"}
			}
			return fmt.Sprintf("(%s %s %s)", m[op], x, y)
		}
		m := map[token.Token]string{token.LSS: "<", token.LEQ: "<=", token.GTR: ">", token.GEQ: ">="}
		return fmt.Sprintf("(%s %s %s)", m[op], x, y)
	}
	// equality on other types
	eq := e.eqVal(x, y, t)
	if op == token.NEQ {
		return "(not " + eq + ")"
	}
	return eq
}

// eqVal is Go's == on values of type t.
func (e *Enc) eqVal(x, y string, t types.Type) string {
	switch u := t.Underlying().(type) {
	case *types.Basic:
		if u.Info()&types.IsFloat != 0 {
			return fmt.Sprintf("(fp.eq %s %s)", x, y)
		}
	case *types.Slice:
		// only comparison with nil is legal
		return fmt.Sprintf("(= (s_arr %s) (s_arr %s))", x, y)
	case *types.Struct:
		si := e.structInfoOf(t)
		if len(si.fields) == 0 {
			return "true"
		}
		var parts []string
		for i := 0; i < u.NumFields(); i++ {
			parts = append(parts, e.eqVal(fmt.Sprintf("(%s %s)", si.fields[i], x), fmt.Sprintf("(%s %s)", si.fields[i], y), u.Field(i).Type()))
		}
		if len(parts) == 1 {
			return parts[0]
		}
		return "(and " + strings.Join(parts, " ") + ")"
	}
	return fmt.Sprintf("(= %s %s)", x, y)
}

func (e *Enc) resizeBV(x string, from, to int, signed bool) string {
	switch {
	case from == to:
		return x
	case from > to:
		return fmt.Sprintf("((_ extract %d 0) %s)", to-1, x)
	case signed:
		return fmt.Sprintf("((_ sign_extend %d) %s)", to-from, x)
	}
	return fmt.Sprintf("((_ zero_extend %d) %s)", to-from, x)
}

func (f *Frame) binop(in *ssa.BinOp) {
	e := f.e
	x, y := f.val(in.X), f.val(in.Y)
	xt := in.X.Type()
	switch in.Op {
	case token.EQL, token.NEQ, token.LSS, token.LEQ, token.GTR, token.GEQ:
		f.setVal(in, e.cmpOp(in.Op, x, y, xt))
		return
	}
	t := in.Type()
	switch {
	case isBool(t):
		m := map[token.Token]string{token.LAND: "and", token.LOR: "or", token.AND: "and", token.OR: "or"}
		f.setVal(in, fmt.Sprintf("(%s %s %s)", m[in.Op], x, y))
	case isString(t):
		f.setVal(in, fmt.Sprintf("(str.++ %s %s)", x, y))
	case isFloat(t):
		m := map[token.Token]string{token.ADD: "fp.add RNE", token.SUB: "fp.sub RNE", token.MUL: "fp.mul RNE", token.QUO: "fp.div RNE"}
		f.setVal(in, fmt.Sprintf("(%s %s %s)", m[in.Op], x, y))
	case isInteger(t):
		b := t.Underlying().(*types.Basic)
		w, signed := intWidth(b)
		if e.bv() {
			switch in.Op {
			case token.ADD:
				f.setVal(in, fmt.Sprintf("(bvadd %s %s)", x, y))
			case token.SUB:
				f.setVal(in, fmt.Sprintf("(bvsub %s %s)", x, y))
			case token.MUL:
				f.setVal(in, fmt.Sprintf("(bvmul %s %s)", x, y))
			case token.QUO, token.REM:
				f.safety("divzero", fmt.Sprintf("(not (= %s %s))", y, bvLit("0", w)), in)
				op := map[bool]map[token.Token]string{true: {token.QUO: "bvsdiv", token.REM: "bvsrem"}, false: {token.QUO: "bvudiv", token.REM: "bvurem"}}[signed][in.Op]
				f.setVal(in, fmt.Sprintf("(%s %s %s)", op, x, y))
			case token.AND:
				f.setVal(in, fmt.Sprintf("(bvand %s %s)", x, y))
			case token.OR:
				f.setVal(in, fmt.Sprintf("(bvor %s %s)", x, y))
			case token.XOR:
				f.setVal(in, fmt.Sprintf("(bvxor %s %s)", x, y))
			case token.AND_NOT:
				f.setVal(in, fmt.Sprintf("(bvand %s (bvnot %s))", x, y))
			case token.SHL, token.SHR:
				yb := in.Y.Type().Underlying().(*types.Basic)
				wy, sy := intWidth(yb)
				if sy {
					f.safety("negshift", fmt.Sprintf("(bvsge %s %s)", y, bvLit("0", wy)), in)
				}
				ys := y
				big := "false"
				if wy > w {
					big = fmt.Sprintf("(bvuge %s %s)", y, bvLit(fmt.Sprint(w), wy))
					ys = e.resizeBV(y, wy, w, false)
				} else {
					ys = e.resizeBV(y, wy, w, false)
				}
				op := "bvshl"
				over := bvLit("0", w)
				if in.Op == token.SHR {
					op = "bvlshr"
					if signed {
						op = "bvashr"
						over = fmt.Sprintf("(ite (bvslt %s %s) (bvnot %s) %s)", x, bvLit("0", w), bvLit("0", w), bvLit("0", w))
					}
				}
				r := fmt.Sprintf("(%s %s %s)", op, x, ys)
				if big != "false" {
					r = fmt.Sprintf("(ite %s %s %s)", big, over, r)
				}
				f.setVal(in, r)
			default:
				f.havocVal(in, "unmodelled int op "+in.Op.String())
			}
			return
		}
		// mode int
		var r string
		switch in.Op {
		case token.ADD:
			r = fmt.Sprintf("(+ %s %s)", x, y)
		case token.SUB:
			r = fmt.Sprintf("(- %s %s)", x, y)
		case token.MUL:
			r = fmt.Sprintf("(* %s %s)", x, y)
		case token.QUO, token.REM:
			f.safety("divzero", fmt.Sprintf("(not (= %s 0))", y), in)
			q := fmt.Sprintf("(ite (>= %s 0) (div %s %s) (- (div (- %s) %s)))", x, x, y, x, y)
			if in.Op == token.QUO {
				r = q
			} else {
				r = fmt.Sprintf("(- %s (* %s %s))", x, y, q)
			}
		default:
			f.havocVal(in, "bit operation in mode int: "+in.Op.String())
			return
		}
		lo, hi := intRange(w, signed)
		rn := e.define(f.prefix+in.Name(), "Int", r)
		inRange := fmt.Sprintf("(and (<= %s %s) (<= %s %s))", lo, rn, rn, hi)
		if f.depth == 0 {
			e.safetyOrd["overflow"]++
			id := fmt.Sprintf("%s#overflow[%s#%d]", e.unit.Key(), in.Op.String(), e.safetyOrd["overflow"])
			if e.unit.Overflow {
				e.oblige("overflow", id, "overflow", f.reach, inRange, e.P.pos(in.Pos()))
			} else {
				e.note("machine arithmetic treated as mathematical (no-overflow assumed) in %s", f.fn.Name())
			}
		}
		f.refine(inRange)
		f.vals[in] = rn
	default:
		f.havocVal(in, "unmodelled binop type "+t.String())
	}
}

// f2i: the (uninterpreted) float→int conversion of mode int.
func (e *Enc) f2i(x string, from types.Type, width int, signed bool) string {
	return e.ufAppSort(fmt.Sprintf("go.f2i.%d.%v", width, signed), []CVal{{S: x, T: from}}, "Int")
}

func (f *Frame) havocVal(v ssa.Value, why string) {
	f.vals[v] = f.e.symbolic(f.prefix+v.Name(), v.Type(), f.st, f.reach)
	f.e.note("havoc value: %s (%s)", why, f.fn.Name())
}

func (f *Frame) convert(in *ssa.Convert) {
	e := f.e
	x := f.val(in.X)
	from, to := in.X.Type(), in.Type()
	switch {
	case isInteger(from) && isInteger(to):
		fb, tb := from.Underlying().(*types.Basic), to.Underlying().(*types.Basic)
		fw, fs := intWidth(fb)
		tw, ts := intWidth(tb)
		if e.bv() {
			f.setVal(in, e.resizeBV(x, fw, tw, fs))
			return
		}
		// exact wrap-around in mode int
		flo, fhi := intRange(fw, fs)
		tlo, thi := intRange(tw, ts)
		_ = flo
		_ = fhi
		if (fs == ts && tw >= fw) || (!fs && ts && tw > fw) {
			f.setVal(in, x)
			return
		}
		pow := new(big.Int).Lsh(big.NewInt(1), uint(tw)).String()
		if ts {
			half := new(big.Int).Lsh(big.NewInt(1), uint(tw-1)).String()
			f.setVal(in, fmt.Sprintf("(- (mod (+ %s %s) %s) %s)", x, half, pow, half))
		} else {
			f.setVal(in, fmt.Sprintf("(mod %s %s)", x, pow))
		}
		_ = tlo
		_ = thi
	case isInteger(from) && isFloat(to):
		fb := from.Underlying().(*types.Basic)
		_, fs := intWidth(fb)
		eb, sb := 11, 53
		if to.Underlying().(*types.Basic).Kind() == types.Float32 {
			eb, sb = 8, 24
		}
		if e.bv() {
			if fs {
				f.setVal(in, fmt.Sprintf("((_ to_fp %d %d) RNE %s)", eb, sb, x))
			} else {
				f.setVal(in, fmt.Sprintf("((_ to_fp_unsigned %d %d) RNE %s)", eb, sb, x))
			}
		} else {
			f.setVal(in, fmt.Sprintf("((_ to_fp %d %d) RNE (to_real %s))", eb, sb, x))
		}
	case isFloat(from) && isInteger(to):
		tb := to.Underlying().(*types.Basic)
		tw, ts := intWidth(tb)
		if e.bv() {
			if ts {
				f.setVal(in, fmt.Sprintf("((_ fp.to_sbv %d) RTZ %s)", tw, x))
			} else {
				f.setVal(in, fmt.Sprintf("((_ fp.to_ubv %d) RTZ %s)", tw, x))
			}
		} else {
			// mode int: an uninterpreted function of the operand (per target width and signedness), within the
			// range of the target type; contracts write the same conversion (int(x), int64(x), ...)
			r := e.define(f.prefix+"f2i", "Int", e.f2i(x, from, tw, ts))
			if fact := e.typeFact(r, to, f.st); fact != "true" {
				e.assume(f.reach, fact)
			}
			f.setVal(in, r)
			e.note("assumed: float→int conversion is a function of its operand with a result in the target type's range (%s)", f.fn.Name())
		}
	case isFloat(from) && isFloat(to):
		eb, sb := 11, 53
		if to.Underlying().(*types.Basic).Kind() == types.Float32 {
			eb, sb = 8, 24
		}
		if e.sortOf(from) == e.sortOf(to) {
			f.setVal(in, x)
		} else {
			f.setVal(in, fmt.Sprintf("((_ to_fp %d %d) RNE %s)", eb, sb, x))
		}
	case isString(from) && isString(to):
		f.setVal(in, x)
	case isString(from) && isRuneSlice(to) && !e.bv():
		// []rune(s): a fresh array holding go.runes(s), of length go.runecount(s) (uninterpreted functions of s)
		e.runeDecls()
		elem := to.Underlying().(*types.Slice).Elem()
		ref := e.allocRef(f.st)
		comp := elemCompName(e, elem)
		h := e.comp(f.st, comp, e.elemSort(elem))
		e.setComp(f.st, comp, fmt.Sprintf("(store %s %s (go.runes %s))", h, ref, x))
		n := fmt.Sprintf("(go.runecount %s)", x)
		e.assume(f.reach, fmt.Sprintf("(and (<= 0 %s) (<= %s (str.len %s)))", n, n, x))
		f.setVal(in, fmt.Sprintf("(mkSlice %s 0 %s %s)", ref, n, n))
	case isString(from) && isByteSlice(to) && !e.bv():
		// []byte(s): a fresh array of exactly len(s) bytes; its contents are an uninterpreted function of s
		if !e.ufSeen["go.bytes"] {
			e.ufSeen["go.bytes"] = true
			e.ufDecls = append(e.ufDecls, "(declare-fun go.bytes (String) (Array Int Int))")
		}
		elem := to.Underlying().(*types.Slice).Elem()
		ref := e.allocRef(f.st)
		comp := elemCompName(e, elem)
		h := e.comp(f.st, comp, e.elemSort(elem))
		e.setComp(f.st, comp, fmt.Sprintf("(store %s %s (go.bytes %s))", h, ref, x))
		n := fmt.Sprintf("(str.len %s)", x)
		// string([]byte(s)) == s
		e.bytesDecls()
		e.assume(f.reach, fmt.Sprintf("(= (go.bytes2str (go.bytes %s) 0 %s) %s)", x, n, x))
		f.setVal(in, fmt.Sprintf("(mkSlice %s 0 %s %s)", ref, n, n))
	case isByteSlice(from) && isString(to) && !e.bv():
		// string(bs): an uninterpreted function of the backing row, the offset and the length
		e.bytesDecls()
		elem := from.Underlying().(*types.Slice).Elem()
		h := e.comp(f.st, elemCompName(e, elem), e.elemSort(elem))
		f.setVal(in, fmt.Sprintf("(go.bytes2str (select %s (s_arr %s)) (s_off %s) (s_len %s))", h, x, x, x))
	case isRuneSlice(from) && isString(to) && !e.bv():
		// string(rs): an uninterpreted function of the backing row, the offset and the length
		e.runeDecls()
		elem := from.Underlying().(*types.Slice).Elem()
		h := e.comp(f.st, elemCompName(e, elem), e.elemSort(elem))
		f.setVal(in, fmt.Sprintf("(go.runes2str (select %s (s_arr %s)) (s_off %s) (s_len %s))", h, x, x, x))
	case isInteger(from) && isString(to) && !e.bv():
		// string(r): the UTF-8 encoding of one code point
		e.runeDecls()
		f.setVal(in, fmt.Sprintf("(go.rune2str %s)", x))
	case isPointerLike(from) && isPointerLike(to):
		f.setVal(in, x)
	default:
		f.havocVal(in, fmt.Sprintf("conversion %s→%s", from, to))
	}
}

// instr encodes one non-terminator, non-phi instruction.
func (f *Frame) instr(in ssa.Instruction) {
	e := f.e
	f.guardCheck(in)
	switch in := in.(type) {
	case *ssa.DebugRef:
	case *ssa.Alloc:
		elem := in.Type().(*types.Pointer).Elem()
		if privateAlloc(in) {
			// a non-escaping local: its storage is private to this activation, no callee or havoc can touch it
			name := localComp(f.prefix, in)
			p := &Place{kind: "global", comp: name, typ: elem}
			f.places[in] = p
			e.comp(f.st, name, e.sortOf(elem))
			e.setComp(f.st, name, e.zero(elem))
			break
		}
		ref := e.allocRef(f.st)
		f.vals[in] = ref
		switch u := elem.Underlying().(type) {
		case *types.Struct:
			for i := 0; i < u.NumFields(); i++ {
				e.store(f.st, e.fieldPlace(ref, elem, i), e.zero(u.Field(i).Type()))
			}
		case *types.Array:
			p := &Place{kind: "cell", comp: elemCompName(e, u.Elem()), ref: ref, typ: elem}
			_ = p
			comp := elemCompName(e, u.Elem())
			h := e.comp(f.st, comp, fmt.Sprintf("(Array Int (Array %s %s))", e.idxSort(), e.sortOf(u.Elem())))
			e.setComp(f.st, comp, fmt.Sprintf("(store %s %s %s)", h, ref, e.zero(elem)))
		default:
			e.store(f.st, e.derefPlace(ref, elem), e.zero(elem))
		}
	case *ssa.FieldAddr:
		base := f.placeOf(in.X)
		st := in.X.Type().Underlying().(*types.Pointer).Elem()
		if base.kind == "structref" && len(base.sub) == 0 {
			f.safety("nil", fmt.Sprintf("(not (= %s 0))", base.ref), in)
			f.places[in] = e.fieldPlace(base.ref, st, in.Field)
		} else {
			np := *base
			np.sub = append(append([]subAcc{}, base.sub...), subAcc{field: in.Field, si: e.structInfoOf(st), result: st.Underlying().(*types.Struct).Field(in.Field).Type()})
			f.places[in] = &np
		}
	case *ssa.IndexAddr:
		idx := f.idxVal(in.Index)
		switch u := in.X.Type().Underlying().(type) {
		case *types.Slice:
			s := f.val(in.X)
			f.safety("index", e.inBounds(idx, fmt.Sprintf("(s_len %s)", s)), in)
			f.places[in] = &Place{kind: "elem", comp: elemCompName(e, u.Elem()), ref: fmt.Sprintf("(s_arr %s)", s),
				idx: e.define(f.prefix+"ix", e.idxSort(), e.idxAdd(fmt.Sprintf("(s_off %s)", s), idx)), typ: u.Elem(),
				off: fmt.Sprintf("(s_off %s)", s), rel: idx}
		case *types.Pointer:
			arr := u.Elem().Underlying().(*types.Array)
			f.safety("index", e.inBounds(idx, e.idxLit(fmt.Sprint(arr.Len()))), in)
			base := f.placeOf(in.X)
			if base.kind == "arrayref" {
				f.places[in] = &Place{kind: "elem", comp: elemCompName(e, arr.Elem()), ref: base.ref, idx: idx, typ: arr.Elem()}
			} else {
				np := *base
				np.sub = append(append([]subAcc{}, base.sub...), subAcc{field: -1, idx: idx, result: arr.Elem()})
				f.places[in] = &np
			}
		}
	case *ssa.Field:
		si := e.structInfoOf(in.X.Type())
		f.setVal(in, fmt.Sprintf("(%s %s)", si.fields[in.Field], f.val(in.X)))
	case *ssa.Index:
		idx := f.idxVal(in.Index)
		switch u := in.X.Type().Underlying().(type) {
		case *types.Array:
			f.safety("index", e.inBounds(idx, e.idxLit(fmt.Sprint(u.Len()))), in)
			f.setVal(in, fmt.Sprintf("(select %s %s)", f.val(in.X), idx))
		case *types.Basic:
			if e.bv() {
				f.havocVal(in, "string index in mode bv")
			} else {
				sv := f.val(in.X)
				f.safety("index", fmt.Sprintf("(and (<= 0 %s) (< %s (str.len %s)))", idx, idx, sv), in)
				f.setVal(in, fmt.Sprintf("(str.to_code (str.at %s %s))", sv, idx))
			}
		default:
			f.havocVal(in, "index of "+in.X.Type().String())
		}
	case *ssa.UnOp:
		switch in.Op {
		case token.MUL:
			p := f.placeOf(in.X)
			if p.kind == "structref" || p.kind == "cell" {
				f.safety("nil", fmt.Sprintf("(not (= %s 0))", p.ref), in)
			}
			var v string
			if p.kind == "arrayref" {
				u := p.typ.Underlying().(*types.Array)
				h := e.comp(f.st, elemCompName(e, u.Elem()), fmt.Sprintf("(Array Int (Array %s %s))", e.idxSort(), e.sortOf(u.Elem())))
				v = fmt.Sprintf("(select %s %s)", h, p.ref)
			} else {
				v = e.load(f.st, p)
			}
			f.setVal(in, v)
			// loaded references are allocated
			if fact := e.loadFact(f.vals[in], in.Type(), f.st); fact != "true" {
				e.assume(f.reach, fact)
			}
		case token.NOT:
			f.setVal(in, fmt.Sprintf("(not %s)", f.val(in.X)))
		case token.SUB:
			if isFloat(in.Type()) {
				f.setVal(in, fmt.Sprintf("(fp.neg %s)", f.val(in.X)))
			} else if e.bv() {
				f.setVal(in, fmt.Sprintf("(bvneg %s)", f.val(in.X)))
			} else {
				f.setVal(in, fmt.Sprintf("(- %s)", f.val(in.X)))
			}
		case token.XOR:
			if e.bv() {
				f.setVal(in, fmt.Sprintf("(bvnot %s)", f.val(in.X)))
			} else {
				f.havocVal(in, "bitwise complement in mode int")
			}
		case token.ARROW:
			f.blockingHavoc("channel receive in " + f.fn.Name())
			if tup, ok := in.Type().(*types.Tuple); ok {
				var rs []string
				for i := 0; i < tup.Len(); i++ {
					rs = append(rs, e.symbolic(f.prefix+in.Name(), tup.At(i).Type(), f.st, f.reach))
				}
				f.tuples[in] = rs
			} else {
				f.havocVal(in, "channel receive")
			}
		default:
			f.havocVal(in, "unop "+in.Op.String())
		}
	case *ssa.BinOp:
		f.binop(in)
	case *ssa.Store:
		f.storeGuard(in.Addr, f.val(in.Val), in)
		p := f.placeOf(in.Addr)
		if p.kind == "structref" || p.kind == "cell" {
			f.safety("nil", fmt.Sprintf("(not (= %s 0))", p.ref), in)
		}
		if p.kind == "arrayref" {
			u := p.typ.Underlying().(*types.Array)
			comp := elemCompName(e, u.Elem())
			h := e.comp(f.st, comp, fmt.Sprintf("(Array Int (Array %s %s))", e.idxSort(), e.sortOf(u.Elem())))
			e.setComp(f.st, comp, fmt.Sprintf("(store %s %s %s)", h, p.ref, f.val(in.Val)))
		} else {
			e.store(f.st, p, f.val(in.Val))
		}
	case *ssa.Convert:
		f.convert(in)
	case *ssa.ChangeType:
		f.setVal(in, f.val(in.X))
	case *ssa.ChangeInterface:
		f.setVal(in, f.val(in.X))
	case *ssa.MakeInterface:
		t := in.X.Type()
		tag := e.typeTag(t)
		x := f.val(in.X)
		if isPointerLike(t) {
			f.setVal(in, fmt.Sprintf("(mkI %d %s)", tag, x))
		} else {
			box, unbox := e.boxFn(t)
			f.setVal(in, fmt.Sprintf("(%s %d %s)", box, tag, x))
			if opaqueBox(e.sortOf(t)) {
				// opaque boxes are uninterpreted; a ground instance of "unboxing what was boxed gives it back" for
				// this value keeps slice / struct payloads readable in postconditions (no quantified axiom)
				e.assume(f.reach, fmt.Sprintf("(= (%s (%s %d %s)) %s)", unbox, box, tag, x, x))
			}
		}
	case *ssa.TypeAssert:
		f.typeAssert(in)
	case *ssa.MakeSlice:
		elem := in.Type().Underlying().(*types.Slice).Elem()
		ref := e.allocRef(f.st)
		comp := elemCompName(e, elem)
		rowSort := fmt.Sprintf("(Array %s %s)", e.idxSort(), e.sortOf(elem))
		h := e.comp(f.st, comp, fmt.Sprintf("(Array Int %s)", rowSort))
		e.setComp(f.st, comp, fmt.Sprintf("(store %s %s ((as const %s) %s))", h, ref, rowSort, e.zero(elem)))
		ln, cp := f.idxVal(in.Len), f.idxVal(in.Cap)
		f.safety("makeslice", fmt.Sprintf("(and %s %s)", e.idxLe(e.idxLit("0"), ln), e.idxLe(ln, cp)), in)
		f.setVal(in, fmt.Sprintf("(mkSlice %s %s %s %s)", ref, e.idxLit("0"), ln, cp))
	case *ssa.Slice:
		f.sliceOp(in)
	case *ssa.MakeMap:
		ref := e.allocRef(f.st)
		mt := in.Type().Underlying().(*types.Map)
		md, _ := e.mapComps(mt)
		h := e.comp(f.st, md, e.comps[md])
		e.setComp(f.st, md, fmt.Sprintf("(store %s %s ((as const (Array %s Bool)) false))", h, ref, e.sortOf(mt.Key())))
		f.vals[in] = ref
	case *ssa.MapUpdate:
		mt := in.Map.Type().Underlying().(*types.Map)
		md, mv := e.mapComps(mt)
		m := f.val(in.Map)
		f.safety("nilmap", fmt.Sprintf("(not (= %s 0))", m), in)
		k, v := f.val(in.Key), f.val(in.Value)
		hd := e.comp(f.st, md, e.comps[md])
		hv := e.comp(f.st, mv, e.comps[mv])
		e.setComp(f.st, md, fmt.Sprintf("(store %s %s (store (select %s %s) %s true))", hd, m, hd, m, k))
		e.setComp(f.st, mv, fmt.Sprintf("(store %s %s (store (select %s %s) %s %s))", hv, m, hv, m, k, v))
	case *ssa.Lookup:
		f.lookup(in)
	case *ssa.Range:
		f.vals[in] = f.val(in.X) // iterator = the collection itself
		if mt, ok := in.X.Type().Underlying().(*types.Map); ok {
			comp := seenComp(f, in)
			sortName := fmt.Sprintf("(Array %s Bool)", e.sortOf(mt.Key()))
			e.comp(f.st, comp, sortName)
			e.setComp(f.st, comp, fmt.Sprintf("((as const %s) false)", sortName))
			e.comp(f.st, countComp(f, in), e.idxSort())
			e.setComp(f.st, countComp(f, in), e.idxLit("0"))
		}
	case *ssa.Next:
		f.next(in)
	case *ssa.Extract:
		tup := f.tuples[in.Tuple]
		if tup == nil {
			f.havocVal(in, "extract from unknown tuple")
		} else {
			f.vals[in] = tup[in.Index]
		}
	case *ssa.Call:
		f.call(in, &in.Call, in)
	case *ssa.Defer:
		// the deferred call is registered dynamically: a ghost flag records that this defer statement ran
		name := f.deferFlag(in)
		e.comp(f.st, name, "Bool")
		e.setComp(f.st, name, "true")
	case *ssa.RunDefers:
		f.returnGuards(in)
		f.runDefers()
	case *ssa.Go:
		// a goroutine whose body is a function (literal) under contract with a frame clause can, concurrently,
		// change only what that frame allows; anything else started here may change everything
		var gc *Contract
		if callee := in.Call.StaticCallee(); callee != nil {
			if c := e.P.CS.Funcs[fnKey(callee)]; c != nil && (c.HasMod || len(c.ModComps) > 0) && len(c.Modifies) == 0 {
				gc = c
			}
		}
		if gc != nil {
			if len(gc.ModComps) > 0 {
				e.havocMatching(f.st, gc.ModComps)
			}
			e.note("go statement in %s: the goroutine body %s is under contract; only its frame is havocked", f.fn.Name(), shortKey(gc.Key()))
		} else {
			e.fullHavoc(f.st, "go statement in "+f.fn.Name())
		}
	case *ssa.MakeClosure:
		f.vals[in] = e.symbolic(f.prefix+in.Name(), in.Type(), f.st, f.reach)
		e.assume(f.reach, fmt.Sprintf("(not (= %s 0))", f.vals[in]))
	case *ssa.Send:
		f.chanSend(f.val(in.Chan), f.val(in.X), in.Chan.Type(), in.X.Type(), in)
		f.blockingHavoc("channel send in " + f.fn.Name())
	case *ssa.Select:
		for _, stt := range in.States {
			if stt.Dir == types.SendOnly {
				f.chanSend(f.val(stt.Chan), f.val(stt.Send), stt.Chan.Type(), stt.Send.Type(), in)
			}
		}
		f.blockingHavoc("select in " + f.fn.Name())
		f.lastSel = in
		tup := in.Type().(*types.Tuple)
		var rs []string
		for i := 0; i < tup.Len(); i++ {
			rs = append(rs, e.symbolic(f.prefix+in.Name(), tup.At(i).Type(), f.st, f.reach))
		}
		f.tuples[in] = rs
	case *ssa.MakeChan:
		// make(chan T, n) panics for n < 0
		f.safety("makechan", e.idxLe(e.idxLit("0"), f.val(in.Size)), in)
		f.vals[in] = e.allocRef(f.st)
	case *ssa.SliceToArrayPointer:
		f.havocVal(in, "slice to array pointer")
	default:
		e.unsupported = append(e.unsupported, fmt.Sprintf("%T in %s", in, f.fn.Name()))
		if v, ok := in.(ssa.Value); ok {
			f.havocVal(v, fmt.Sprintf("unsupported %T", in))
		}
	}
}

// loadFact: references found in memory are allocated.
func (e *Enc) loadFact(v string, t types.Type, st *State) string {
	switch t.Underlying().(type) {
	case *types.Pointer, *types.Map, *types.Chan, *types.Slice, *types.Interface:
		return e.typeFact(v, t, st)
	case *types.Basic:
		if !e.bv() {
			return e.typeFact(v, t, st)
		}
	case *types.Struct:
		return e.typeFact(v, t, st)
	}
	return "true"
}

// privateAlloc: the storage of a is reachable only from this activation. Either go/ssa says it does not escape,
// or it is a scalar/pointer/interface/slice variable whose address is only loaded from, stored to, or captured
// by closures that are themselves only deferred in this function (they run at its exit; never stored, passed on,
// called inside loops or started as goroutines).
func privateAlloc(a *ssa.Alloc) bool {
	if !a.Heap {
		return true
	}
	switch a.Type().(*types.Pointer).Elem().Underlying().(type) {
	case *types.Struct, *types.Array:
		return false
	}
	refs := a.Referrers()
	if refs == nil {
		return false
	}
	for _, r := range *refs {
		switch x := r.(type) {
		case *ssa.DebugRef:
		case *ssa.UnOp:
			if x.Op != token.MUL {
				return false
			}
		case *ssa.Store:
			if x.Addr != a || x.Val == a {
				return false
			}
		case *ssa.MakeClosure:
			if x.Parent() != a.Parent() {
				return false
			}
			crefs := x.Referrers()
			if crefs == nil {
				return false
			}
			for _, cr := range *crefs {
				switch y := cr.(type) {
				case *ssa.DebugRef:
				case *ssa.Defer:
					if y.Call.Value != x {
						return false
					}
				default:
					return false
				}
			}
			// the closure body must not leak the address either
			fn := x.Fn.(*ssa.Function)
			for i, b := range x.Bindings {
				if b != a {
					continue
				}
				fv := fn.FreeVars[i]
				if fv.Referrers() == nil {
					return false
				}
				for _, fr := range *fv.Referrers() {
					switch z := fr.(type) {
					case *ssa.DebugRef:
					case *ssa.UnOp:
						if z.Op != token.MUL {
							return false
						}
					case *ssa.Store:
						if z.Addr != fv || z.Val == fv {
							return false
						}
					default:
						return false
					}
				}
			}
		default:
			return false
		}
	}
	return true
}

func localComp(prefix string, a *ssa.Alloc) string {
	return "L_" + sanitize(prefix+a.Name())
}

func (f *Frame) idxVal(v ssa.Value) string {
	x := f.val(v)
	if f.e.bv() {
		b := v.Type().Underlying().(*types.Basic)
		w, s := intWidth(b)
		return f.e.resizeBV(x, w, 64, s)
	}
	return x
}

func (e *Enc) idxAdd(a, b string) string {
	if e.bv() {
		return fmt.Sprintf("(bvadd %s %s)", a, b)
	}
	return fmt.Sprintf("(+ %s %s)", a, b)
}
func (e *Enc) idxSub(a, b string) string {
	if e.bv() {
		return fmt.Sprintf("(bvsub %s %s)", a, b)
	}
	return fmt.Sprintf("(- %s %s)", a, b)
}
func (e *Enc) idxLe(a, b string) string {
	if e.bv() {
		return fmt.Sprintf("(bvsle %s %s)", a, b)
	}
	return fmt.Sprintf("(<= %s %s)", a, b)
}
func (e *Enc) idxLt(a, b string) string {
	if e.bv() {
		return fmt.Sprintf("(bvslt %s %s)", a, b)
	}
	return fmt.Sprintf("(< %s %s)", a, b)
}
func (e *Enc) inBounds(i, n string) string {
	return fmt.Sprintf("(and %s %s)", e.idxLe(e.idxLit("0"), i), e.idxLt(i, n))
}

func (e *Enc) mapComps(mt *types.Map) (dom, val string) {
	// one pair of components per Go map type
	k := shortTypeName(mt.Key()) + "_" + shortTypeName(mt.Elem())
	dom, val = "MD_"+k, "MV_"+k
	if _, ok := e.comps[dom]; !ok {
		e.comps[dom] = fmt.Sprintf("(Array Int (Array %s Bool))", e.sortOf(mt.Key()))
		e.comps[val] = fmt.Sprintf("(Array Int (Array %s %s))", e.sortOf(mt.Key()), e.sortOf(mt.Elem()))
	}
	return
}

func (f *Frame) typeAssert(in *ssa.TypeAssert) {
	e := f.e
	x := f.val(in.X)
	var ok, v string
	if isIface(in.AssertedType) {
		if it := in.AssertedType.Underlying().(*types.Interface); it.NumMethods() == 0 {
			ok = fmt.Sprintf("(not (= (i_tag %s) 0))", x)
		} else {
			ok = fmt.Sprintf("(%s (i_tag %s))", e.implFn(in.AssertedType), x)
		}
		v = x
	} else {
		tag := e.typeTag(in.AssertedType)
		ok = fmt.Sprintf("(= (i_tag %s) %d)", x, tag)
		if isPointerLike(in.AssertedType) {
			v = fmt.Sprintf("(i_ref %s)", x)
		} else {
			_, unbox := e.boxFn(in.AssertedType)
			v = fmt.Sprintf("(%s %s)", unbox, x)
		}
	}
	// a value stored in an interface with dynamic type T is a value of T (e.g. an unsigned payload is not negative)
	if _, isIface := in.AssertedType.Underlying().(*types.Interface); !isIface {
		if fact := e.typeFact(v, in.AssertedType, f.st); fact != "true" {
			e.assume(f.reach, fmt.Sprintf("(=> %s %s)", ok, fact))
		}
	}
	if in.CommaOk {
		okn := e.define(f.prefix+in.Name()+".ok", "Bool", ok)
		vn := e.define(f.prefix+in.Name()+".v", e.sortOf(in.AssertedType), fmt.Sprintf("(ite %s %s %s)", okn, v, e.zero(in.AssertedType)))
		f.tuples[in] = []string{vn, okn}
		return
	}
	f.safety("typeassert", ok, in)
	f.setVal(in, v)
}

func (f *Frame) sliceOp(in *ssa.Slice) {
	e := f.e
	switch u := in.X.Type().Underlying().(type) {
	case *types.Slice:
		s := f.val(in.X)
		lo := e.idxLit("0")
		if in.Low != nil {
			lo = f.idxVal(in.Low)
		}
		hi := fmt.Sprintf("(s_len %s)", s)
		if in.High != nil {
			hi = f.idxVal(in.High)
		}
		mx := fmt.Sprintf("(s_cap %s)", s)
		if in.Max != nil {
			mx = f.idxVal(in.Max)
		}
		cond := fmt.Sprintf("(and %s %s %s %s)", e.idxLe(e.idxLit("0"), lo), e.idxLe(lo, hi), e.idxLe(hi, mx), e.idxLe(mx, fmt.Sprintf("(s_cap %s)", s)))
		f.safety("slice", cond, in)
		f.setVal(in, fmt.Sprintf("(mkSlice (s_arr %s) %s %s %s)", s, e.idxAdd(fmt.Sprintf("(s_off %s)", s), lo), e.idxSub(hi, lo), e.idxSub(mx, lo)))
	case *types.Basic: // string
		s := f.val(in.X)
		if e.bv() {
			f.havocVal(in, "string slicing in mode bv")
			return
		}
		lo := "0"
		if in.Low != nil {
			lo = f.val(in.Low)
		}
		hi := fmt.Sprintf("(str.len %s)", s)
		if in.High != nil {
			hi = f.val(in.High)
		}
		f.safety("slice", fmt.Sprintf("(and (<= 0 %s) (<= %s %s) (<= %s (str.len %s)))", lo, lo, hi, hi, s), in)
		f.setVal(in, fmt.Sprintf("(str.substr %s %s (- %s %s))", s, lo, hi, lo))
	case *types.Pointer: // pointer to array
		arr := u.Elem().Underlying().(*types.Array)
		base := f.placeOf(in.X)
		n := e.idxLit(fmt.Sprint(arr.Len()))
		lo := e.idxLit("0")
		if in.Low != nil {
			lo = f.idxVal(in.Low)
		}
		hi := n
		if in.High != nil {
			hi = f.idxVal(in.High)
		}
		f.safety("slice", fmt.Sprintf("(and %s %s %s)", e.idxLe(e.idxLit("0"), lo), e.idxLe(lo, hi), e.idxLe(hi, n)), in)
		if base.kind == "arrayref" {
			f.setVal(in, fmt.Sprintf("(mkSlice %s %s %s %s)", base.ref, lo, e.idxSub(hi, lo), e.idxSub(n, lo)))
		} else {
			// slicing an array stored inside a struct: copy-out approximation is unsound; treat as opaque
			f.havocVal(in, "slice of array embedded in a struct")
		}
	default:
		f.havocVal(in, "slice of "+in.X.Type().String())
	}
}

func (f *Frame) lookup(in *ssa.Lookup) {
	e := f.e
	if mt, ok := in.X.Type().Underlying().(*types.Map); ok {
		md, mv := e.mapComps(mt)
		m := f.val(in.X)
		k := f.val(in.Index)
		hd := e.comp(f.st, md, e.comps[md])
		hv := e.comp(f.st, mv, e.comps[mv])
		has := e.define(f.prefix+in.Name()+".has", "Bool", fmt.Sprintf("(and (not (= %s 0)) (select (select %s %s) %s))", m, hd, m, k))
		v := e.define(f.prefix+in.Name()+".v", e.sortOf(mt.Elem()), fmt.Sprintf("(ite %s (select (select %s %s) %s) %s)", has, hv, m, k, e.zero(mt.Elem())))
		if fact := e.loadFact(v, mt.Elem(), f.st); fact != "true" {
			e.assume(f.reach, fact)
		}
		if in.CommaOk {
			f.tuples[in] = []string{v, has}
		} else {
			f.vals[in] = v
		}
		return
	}
	// string index
	if e.bv() {
		f.havocVal(in, "string index in mode bv")
		return
	}
	s := f.val(in.X)
	i := f.val(in.Index)
	f.safety("index", fmt.Sprintf("(and (<= 0 %s) (< %s (str.len %s)))", i, i, s), in)
	f.setVal(in, fmt.Sprintf("(str.to_code (str.at %s %s))", s, i))
}

func (f *Frame) next(in *ssa.Next) {
	e := f.e
	rng := in.Iter.(*ssa.Range)
	ok := e.freshConst(f.prefix+in.Name()+".ok", "Bool")
	if in.IsString {
		s := f.val(rng.X)
		i := e.freshConst(f.prefix+in.Name()+".i", e.idxSort())
		r := e.symbolic(f.prefix+in.Name()+".r", types.Typ[types.Rune], f.st, f.reach)
		if !e.bv() {
			e.assume(f.reach, fmt.Sprintf("(=> %s (and (<= 0 %s) (< %s (str.len %s))))", ok, i, i, s))
		}
		f.tuples[in] = []string{ok, i, r}
		e.note("range over string: index/rune havocked (%s)", f.fn.Name())
		return
	}
	mt := rng.X.Type().Underlying().(*types.Map)
	md, mv := e.mapComps(mt)
	m := f.val(rng.X)
	hd := e.comp(f.st, md, e.comps[md])
	hv := e.comp(f.st, mv, e.comps[mv])
	if r := f.region; r != nil && r.next == in {
		v := e.define(f.prefix+in.Name()+".v", e.sortOf(mt.Elem()), fmt.Sprintf("(select (select %s %s) %s)", hv, m, r.key))
		f.tuples[in] = []string{r.ok, r.key, v}
		return
	}
	k := e.symbolic(f.prefix+in.Name()+".k", mt.Key(), f.st, f.reach)
	v := e.define(f.prefix+in.Name()+".v", e.sortOf(mt.Elem()), fmt.Sprintf("(select (select %s %s) %s)", hv, m, k))
	e.assume(f.reach, fmt.Sprintf("(=> %s (and (not (= %s 0)) (select (select %s %s) %s)))", ok, m, hd, m, k))
	if fact := e.loadFact(v, mt.Elem(), f.st); fact != "true" {
		e.assume(f.reach, fact)
	}
	f.tuples[in] = []string{ok, k, v}
	f.mapNext(in, rng, ok, k)
}

// encodeBody walks the function's blocks in reverse post-order (back edges cut).
func (f *Frame) encodeBody(args []string, reach string, st *State) {
	e := f.e
	fn := f.fn
	if len(fn.Blocks) == 0 {
		panic("no body: " + fn.String())
	}
	for i, p := range fn.Params {
		f.vals[p] = args[i]
	}
	// defer statements start unregistered
	for _, b := range fn.Blocks {
		for _, in := range b.Instrs {
			if d, ok := in.(*ssa.Defer); ok {
				f.defers = append(f.defers, d)
				name := f.deferFlag(d)
				e.comp(st, name, "Bool")
				e.setComp(st, name, "false")
			}
		}
	}
	f.entrySt = st.clone()
	// back edges and loop headers
	var headers []*ssa.BasicBlock
	for _, b := range fn.Blocks {
		for _, s := range b.Succs {
			if s.Dominates(b) {
				f.back[[2]int{b.Index, s.Index}] = true
				if f.hdrOrd[s] == 0 {
					f.hdrOrd[s] = -1
					headers = append(headers, s)
				}
			}
		}
	}
	sort.Slice(headers, func(i, j int) bool { return headers[i].Index < headers[j].Index })
	for i, h := range headers {
		f.hdrOrd[h] = i + 1
	}
	// RPO
	var order []*ssa.BasicBlock
	seen := map[*ssa.BasicBlock]bool{}
	var dfs func(b *ssa.BasicBlock)
	dfs = func(b *ssa.BasicBlock) {
		seen[b] = true
		for i := len(b.Succs) - 1; i >= 0; i-- {
			s := b.Succs[i]
			if !seen[s] && !f.back[[2]int{b.Index, s.Index}] {
				dfs(s)
			}
		}
		order = append(order, b)
	}
	dfs(fn.Blocks[0])
	for i, j := 0, len(order)-1; i < j; i, j = i+1, j-1 {
		order[i], order[j] = order[j], order[i]
	}
	for _, b := range order {
		// incoming edges
		var conds []string
		var states []*State
		var preds []*ssa.BasicBlock
		for _, p := range b.Preds {
			if f.back[[2]int{p.Index, b.Index}] {
				continue
			}
			c, ok := f.edge[[2]int{p.Index, b.Index}]
			if !ok {
				continue
			}
			conds = append(conds, c)
			states = append(states, f.exit[p])
			preds = append(preds, p)
		}
		if f.region != nil && !f.region.blocks[b] {
			continue
		}
		if f.region != nil && b == f.region.header {
			f.reach = reach
			f.st = st.clone()
			conds, states, preds = nil, nil, nil
		} else if b.Index == 0 {
			f.reach = reach
			f.st = st.clone()
		} else if len(conds) == 0 {
			// unreachable (e.g. recover block)
			continue
		} else {
			r := conds[0]
			if len(conds) > 1 {
				r = "(or " + strings.Join(conds, " ") + ")"
			}
			f.reach = e.define(fmt.Sprintf("%sreach_%d", f.prefix, b.Index), "Bool", r)
			f.st = e.mergeStates(conds, states)
		}
		f.breach[b] = f.reach
		isHeader := f.hdrOrd[b] > 0
		if f.region != nil && b == f.region.header {
			isHeader = false
			for _, in := range b.Instrs {
				if phi, ok := in.(*ssa.Phi); ok {
					f.vals[phi] = f.region.phiVals[phi]
				}
			}
		}
		// phis
		i := 0
		for ; i < len(b.Instrs); i++ {
			phi, ok := b.Instrs[i].(*ssa.Phi)
			if !ok {
				break
			}
			if isHeader || (f.region != nil && b == f.region.header) {
				continue // handled by loopHeader / preset by the region
			}
			var ts []string
			for _, p := range preds {
				ts = append(ts, f.val(phi.Edges[predIndex(b, p)]))
			}
			expr := ts[len(ts)-1]
			for k := len(ts) - 2; k >= 0; k-- {
				if ts[k] != expr {
					expr = fmt.Sprintf("(ite %s %s %s)", conds[k], ts[k], expr)
				}
			}
			f.setVal(phi, expr)
		}
		if isHeader {
			f.loopHeader(b, preds, conds)
		}
		if f.stopAt == b {
			f.stopped = true
			return
		}
		for ; i < len(b.Instrs); i++ {
			in := b.Instrs[i]
			switch in := in.(type) {
			case *ssa.If:
				c := f.val(in.Cond)
				f.setEdge(b, b.Succs[0], e.define(f.prefix+"e", "Bool", fmt.Sprintf("(and %s %s)", f.reach, c)))
				f.setEdge(b, b.Succs[1], e.define(f.prefix+"e", "Bool", fmt.Sprintf("(and %s (not %s))", f.reach, c)))
			case *ssa.Jump:
				f.setEdge(b, b.Succs[0], f.reach)
			case *ssa.Return:
				var rs []string
				for _, r := range in.Results {
					rs = append(rs, f.val(r))
				}
				f.rets = append(f.rets, retPoint{f.reach, rs, f.st.clone()})
				if f.region != nil {
					f.region.exits = append(f.region.exits, f.reach)
				}
			case *ssa.Panic:
				deep := false // explicit panics of inlined callees count only when the unit asks for them ("safety panic")
				for _, k := range e.unit.SafetyKinds {
					if k == "panic" {
						deep = true
					}
				}
				if e.unit.Safety && (f.depth == 0 && len(e.unit.SafetyKinds) == 0 || deep) {
					e.safetyOrd["panic"]++
					e.oblige("safety", fmt.Sprintf("%s#safety[panic#%d]", e.unit.Key(), e.safetyOrd["panic"]), "panic", f.reach, "false", e.P.pos(in.Pos()))
				}
				f.panics = append(f.panics, f.reach)
			default:
				f.instr(in)
			}
		}
		f.exit[b] = f.st
	}
}

func (f *Frame) setEdge(from, to *ssa.BasicBlock, cond string) {
	if r := f.region; r != nil {
		if to == r.header {
			out := regionOut{cond: cond, st: f.st.clone(), phis: map[*ssa.Phi]string{}}
			pi := predIndex(to, from)
			for _, in := range to.Instrs {
				if phi, ok := in.(*ssa.Phi); ok {
					out.phis[phi] = f.val(phi.Edges[pi])
				}
			}
			r.outs = append(r.outs, out)
			return
		}
		if !r.blocks[to] {
			r.exits = append(r.exits, cond)
			return
		}
	}
	key := [2]int{from.Index, to.Index}
	if old, ok := f.edge[key]; ok {
		// both successors of an If may be the same block
		cond = fmt.Sprintf("(or %s %s)", old, cond)
	}
	f.edge[key] = cond
	if f.back[key] {
		f.backEdge(from, to, cond)
	}
}

func predIndex(b, p *ssa.BasicBlock) int {
	for i, q := range b.Preds {
		if q == p {
			return i
		}
	}
	return -1
}

// merged return: combine all return points into one.
func (f *Frame) mergeReturns() (reach string, results []string, st *State, ok bool) {
	e := f.e
	if len(f.rets) == 0 {
		return "false", nil, nil, false
	}
	var conds []string
	var states []*State
	for _, r := range f.rets {
		conds = append(conds, r.reach)
		states = append(states, r.st)
	}
	reach = conds[0]
	if len(conds) > 1 {
		reach = e.define(f.prefix+"ret", "Bool", "(or "+strings.Join(conds, " ")+")")
	}
	st = e.mergeStates(conds, states)
	n := len(f.rets[0].results)
	res := f.fn.Signature.Results()
	for k := 0; k < n; k++ {
		expr := f.rets[len(f.rets)-1].results[k]
		for i := len(f.rets) - 2; i >= 0; i-- {
			if f.rets[i].results[k] != expr {
				expr = fmt.Sprintf("(ite %s %s %s)", conds[i], f.rets[i].results[k], expr)
			}
		}
		results = append(results, e.define(fmt.Sprintf("%sresult%d", f.prefix, k), e.sortOf(res.At(k).Type()), expr))
	}
	return reach, results, st, true
}

// guardedGlobal: the package-level variable an address or a value syntactically derives from in this function
// (the variable itself, an element/field of it, or a value loaded from it).
func guardedGlobal(v ssa.Value) *ssa.Global {
	for i := 0; i < 16 && v != nil; i++ {
		switch x := v.(type) {
		case *ssa.Global:
			return x
		case *ssa.FieldAddr:
			v = x.X
		case *ssa.IndexAddr:
			v = x.X
		case *ssa.UnOp:
			if x.Op != token.MUL {
				return nil
			}
			v = x.X
		default:
			return nil
		}
	}
	return nil
}

// guardCheck: lock discipline (guarded clauses). A read of a guarded package-level variable (or of a map / slice
// loaded from it in this function) needs the lock held for reading or writing, a write needs it held for
// writing. Package initialisers are exempt (they run before any goroutine exists).
func (f *Frame) guardCheck(in ssa.Instruction) {
	e := f.e
	if len(e.P.CS.Guards) == 0 && len(e.P.CS.FieldGuards) == 0 {
		return
	}
	root := f.fn
	for root.Parent() != nil {
		root = root.Parent()
	}
	if root.Name() == "init" || strings.HasPrefix(root.Name(), "init#") {
		return
	}
	var g *ssa.Global
	write := false
	switch x := in.(type) {
	case *ssa.UnOp:
		if x.Op == token.MUL {
			g = guardedGlobal(x.X)
		}
	case *ssa.Store:
		g, write = guardedGlobal(x.Addr), true
	case *ssa.MapUpdate:
		g, write = guardedGlobal(x.Map), true
	case *ssa.Lookup:
		g = guardedGlobal(x.X)
	case *ssa.Range:
		g = guardedGlobal(x.X)
	case *ssa.Call:
		if b, ok := x.Call.Value.(*ssa.Builtin); ok && len(x.Call.Args) > 0 {
			switch b.Name() {
			case "delete", "clear":
				g, write = guardedGlobal(x.Call.Args[0]), true
			case "len":
				g = guardedGlobal(x.Call.Args[0])
			}
		}
	}
	if len(e.P.CS.FieldGuards) > 0 {
		f.fieldGuardCheck(in)
	}
	if g == nil || g.Pkg == nil {
		return
	}
	gd := e.P.CS.Guards[g.Pkg.Pkg.Path()+"."+g.Name()]
	if gd == nil {
		return
	}
	errs := []string{}
	env := &CEnv{e: e, vars: map[string]CVal{}, st: f.st, old: f.st, pkg: g.Pkg.Pkg, errs: &errs}
	lock := env.ev(gd.Lock)
	for _, m := range errs {
		e.P.contractError("%s: %s", gd.Pos, m)
	}
	w := e.load(f.st, &Place{kind: "field", comp: "GH_lock_w", ref: lock.S, typ: types.Typ[types.Bool]})
	goal := w
	kind := "w"
	if !write {
		r := e.load(f.st, &Place{kind: "field", comp: "GH_lock_r", ref: lock.S, typ: types.Typ[types.Bool]})
		goal = fmt.Sprintf("(or %s %s)", w, r)
		kind = "r"
	}
	key := g.Name() + "." + kind
	e.safetyOrd["guard."+key]++
	o := e.oblige("guard", fmt.Sprintf("%s#guard[%s#%d]", e.unit.Key(), key, e.safetyOrd["guard."+key]), "guard", f.reach, goal, e.P.pos(in.Pos()))
	o.Output = fmt.Sprintf("%s is accessed (%s) without holding %s", g.Name(), map[string]string{"r": "read", "w": "write"}[kind], gd.Text)
}

// guardedFieldAddr: the FieldAddr of a guarded struct field an address or value syntactically derives from.
func (f *Frame) guardedFieldAddr(v ssa.Value) (*ssa.FieldAddr, string) {
	for i := 0; i < 16 && v != nil; i++ {
		switch x := v.(type) {
		case *ssa.FieldAddr:
			st := x.X.Type().Underlying().(*types.Pointer).Elem()
			if n, ok := st.(*types.Named); ok && n.Obj().Pkg() != nil {
				fld := st.Underlying().(*types.Struct).Field(x.Field).Name()
				if lf, ok := f.e.P.CS.FieldGuards[n.Obj().Pkg().Path()+"."+n.Obj().Name()+"."+fld]; ok {
					return x, lf
				}
			}
			v = x.X
		case *ssa.IndexAddr:
			v = x.X
		case *ssa.UnOp:
			if x.Op != token.MUL {
				return nil, ""
			}
			v = x.X
		default:
			return nil, ""
		}
	}
	return nil, ""
}

// fieldGuardCheck: like guardCheck for struct fields guarded by a mutex field of the same object. Accesses to an
// object allocated in the same function (a constructor filling a fresh object) are exempt.
func (f *Frame) fieldGuardCheck(in ssa.Instruction) {
	e := f.e
	var v ssa.Value
	write := false
	switch x := in.(type) {
	case *ssa.UnOp:
		if x.Op == token.MUL {
			v = x.X
		}
	case *ssa.Store:
		v, write = x.Addr, true
	case *ssa.MapUpdate:
		v, write = x.Map, true
	case *ssa.Lookup:
		v = x.X
	case *ssa.Range:
		v = x.X
	case *ssa.Call:
		if b, ok := x.Call.Value.(*ssa.Builtin); ok && len(x.Call.Args) > 0 {
			switch b.Name() {
			case "delete", "clear":
				v, write = x.Call.Args[0], true
			case "len":
				v = x.Call.Args[0]
			}
		}
	}
	if v == nil {
		return
	}
	fa, lockField := f.guardedFieldAddr(v)
	if fa == nil {
		return
	}
	if _, fresh := fa.X.(*ssa.Alloc); fresh {
		return
	}
	p, ok := f.places[fa]
	if !ok || p.kind != "field" {
		return
	}
	st := fa.X.Type().Underlying().(*types.Pointer).Elem()
	var lock string
	if strings.HasPrefix(lockField, "global:") {
		// guarded by a package-level lock: "global:<expr>" evaluated in the struct's package
		named := st.(*types.Named)
		x, err := parser.ParseExpr(strings.TrimPrefix(lockField, "global:"))
		if err != nil {
			e.P.contractError("guardedfield %s: %v", lockField, err)
			return
		}
		errs := []string{}
		env := &CEnv{e: e, vars: map[string]CVal{}, st: f.st, old: f.st, pkg: named.Obj().Pkg(), errs: &errs}
		lock = env.ev(x).S
		for _, m := range errs {
			e.P.contractError("guardedfield %s: %s", lockField, m)
		}
	} else {
		lockComp := fieldComp(st, lockField)
		fn := "faddr_" + lockComp
		if !e.ufSeen[fn] {
			e.ufSeen[fn] = true
			e.ufDecls = append(e.ufDecls, fmt.Sprintf("(declare-fun %s (Int) Int)", fn))
		}
		lock = fmt.Sprintf("(%s %s)", fn, p.ref)
	}
	w := e.load(f.st, &Place{kind: "field", comp: "GH_lock_w", ref: lock, typ: types.Typ[types.Bool]})
	goal, kind := w, "w"
	if !write {
		r := e.load(f.st, &Place{kind: "field", comp: "GH_lock_r", ref: lock, typ: types.Typ[types.Bool]})
		goal, kind = fmt.Sprintf("(or %s %s)", w, r), "r"
	}
	fname := st.Underlying().(*types.Struct).Field(fa.Field).Name()
	key := fname + "." + kind
	e.safetyOrd["guard."+key]++
	o := e.oblige("guard", fmt.Sprintf("%s#guard[%s#%d]", e.unit.Key(), key, e.safetyOrd["guard."+key]), "guard", f.reach, goal, e.P.pos(in.Pos()))
	o.Output = fmt.Sprintf("field %s is accessed (%s) without holding the object's %s", fname, map[string]string{"r": "read", "w": "write"}[kind], lockField)
}

// storeGuard: obligations of the unit's storeguard clauses for a store through addr (a FieldAddr of the named field).
func (f *Frame) storeGuard(addr ssa.Value, val string, in ssa.Instruction) {
	e := f.e
	if len(e.unit.StoreGuards) == 0 {
		return
	}
	fa, ok := addr.(*ssa.FieldAddr)
	if !ok {
		return
	}
	st := fa.X.Type().Underlying().(*types.Pointer).Elem()
	named, ok := st.(*types.Named)
	if !ok {
		return
	}
	key := named.Obj().Name() + "." + st.Underlying().(*types.Struct).Field(fa.Field).Name()
	for _, sg := range e.unit.StoreGuards {
		if sg.Raw != key {
			continue
		}
		vars := map[string]CVal{}
		for k, pv := range f.params {
			vars[k] = pv
		}
		vars["value"] = CVal{S: val, T: st.Underlying().(*types.Struct).Field(fa.Field).Type()}
		errs := []string{}
		env := &CEnv{e: e, vars: vars, st: f.st, old: f.entrySt, pkg: f.fn.Pkg.Pkg, frame: f, at: in.Block(), lets: e.unit.Lets, errs: &errs}
		goal := env.evalBool(sg.Expr)
		f.reportEnvErrs(env, sg)
		lab := sg.Label
		if lab == "" {
			lab = "g"
		}
		e.safetyOrd["store."+key]++
		e.oblige("guard", fmt.Sprintf("%s#guard[store.%s#%d.%s]", e.unit.Key(), key, e.safetyOrd["store."+key], lab), lab, f.reach, goal, e.P.pos(in.Pos()))
	}
}

// blockingHavoc: other goroutines run while this one blocks: everything may change except what only this
// goroutine can change (which locks it holds).
func (f *Frame) blockingHavoc(why string) {
	keep := map[string]string{}
	for k, v := range f.st.h {
		if strings.HasPrefix(k, "GH_lock_") {
			keep[k] = v
		}
	}
	f.e.fullHavoc(f.st, why)
	for k, v := range keep {
		f.st.h[k] = v
	}
}

// chanSend: obligations of the unit's chansend clauses for one send (ch <- val).
func (f *Frame) chanSend(ch, val string, cht, valt types.Type, in ssa.Instruction) {
	e := f.e
	if f.depth != 0 {
		return
	}
	for _, cs := range e.unit.ChanSends {
		vars := map[string]CVal{}
		for k, pv := range f.params {
			vars[k] = pv
		}
		vars["ch"] = CVal{S: ch, T: cht}
		vars["val"] = CVal{S: val, T: valt}
		errs := []string{}
		env := &CEnv{e: e, vars: vars, st: f.st, old: f.entrySt, pkg: f.fn.Pkg.Pkg, frame: f, at: in.Block(), lets: e.unit.Lets, errs: &errs}
		goal := env.evalBool(cs.Expr)
		f.reportEnvErrs(env, cs)
		lab := cs.Label
		if lab == "" {
			lab = "s"
		}
		e.safetyOrd["chansend"]++
		e.oblige("guard", fmt.Sprintf("%s#guard[chansend#%d.%s]", e.unit.Key(), e.safetyOrd["chansend"], lab), lab, f.reach, goal, e.P.pos(in.Pos()))
	}
}

func isRuneSlice(t types.Type) bool {
	sl, ok := t.Underlying().(*types.Slice)
	if !ok {
		return false
	}
	b, ok := sl.Elem().Underlying().(*types.Basic)
	return ok && b.Kind() == types.Int32
}

func isByteSlice(t types.Type) bool {
	sl, ok := t.Underlying().(*types.Slice)
	if !ok {
		return false
	}
	b, ok := sl.Elem().Underlying().(*types.Basic)
	return ok && b.Kind() == types.Uint8
}

// runeDecls declares the uninterpreted functions of the string <-> []rune model (mode int only).
func (e *Enc) bytesDecls() {
	if e.ufSeen["go.bytes2str"] {
		return
	}
	e.ufSeen["go.bytes2str"] = true
	e.ufDecls = append(e.ufDecls, "(declare-fun go.bytes2str ((Array Int Int) Int Int) String)")
}

func (e *Enc) runeDecls() {
	if e.ufSeen["go.runes"] {
		return
	}
	e.ufSeen["go.runes"] = true
	e.ufDecls = append(e.ufDecls,
		"(declare-fun go.runes (String) (Array Int Int))",
		"(declare-fun go.runecount (String) Int)",
		"(declare-fun go.runes2str ((Array Int Int) Int Int) String)",
		"(declare-fun go.rune2str (Int) String)")
}

// returnGuards: obligations of the unit's returnguard clauses at the point where the function leaves its body and
// its deferred calls are about to run (functions without defers: not generated).
func (f *Frame) returnGuards(in ssa.Instruction) {
	e := f.e
	if f.depth != 0 {
		return
	}
	for _, rg := range e.unit.RetGuards {
		errs := []string{}
		env := &CEnv{e: e, vars: f.params, st: f.st, old: f.entrySt, pkg: f.fn.Pkg.Pkg, frame: f, at: in.Block(), lets: e.unit.Lets, errs: &errs}
		goal := env.evalBool(rg.Expr)
		f.reportEnvErrs(env, rg)
		lab := rg.Label
		if lab == "" {
			lab = "r"
		}
		e.callOrd["retguard."+lab]++
		e.oblige("pre", fmt.Sprintf("%s#pre[call.return#%d.%s]", e.unit.Key(), e.callOrd["retguard."+lab], lab), lab, f.reach, goal, e.P.pos(in.Pos()))
	}
}
