package main

import (
	"fmt"
	"go/ast"
	"go/constant"
	"go/token"
	"go/types"
	"sort"
	"strings"

	"golang.org/x/tools/go/ssa"
)

func (f *Frame) builtin(b *ssa.Builtin, cc *ssa.CallCommon, v ssa.Value, in ssa.Instruction) {
	e := f.e
	switch b.Name() {
	case "len", "cap":
		x := f.val(cc.Args[0])
		switch u := cc.Args[0].Type().Underlying().(type) {
		case *types.Slice:
			if b.Name() == "len" {
				f.setVal(v, fmt.Sprintf("(s_len %s)", x))
			} else {
				f.setVal(v, fmt.Sprintf("(s_cap %s)", x))
			}
		case *types.Basic:
			if e.bv() {
				f.setVal(v, fmt.Sprintf("((_ int2bv 64) (str.len %s))", x))
			} else {
				f.setVal(v, fmt.Sprintf("(str.len %s)", x))
			}
		case *types.Map:
			n := e.symbolic(f.prefix+v.Name(), v.Type(), f.st, f.reach)
			e.assume(f.reach, e.idxLe(e.idxLit("0"), n))
			f.vals[v] = n
			// len(m) is tied to the map's domain only through the ghost cardinality function
			md, _ := e.mapComps(u)
			hd := e.comp(f.st, md, e.comps[md])
			card := e.ufCard(u)
			e.assume(f.reach, fmt.Sprintf("(= %s (ite (= %s 0) %s (%s (select %s %s))))", n, x, e.idxLit("0"), card, hd, x))
		case *types.Array:
			f.setVal(v, e.idxLit(fmt.Sprint(u.Len())))
		case *types.Pointer:
			if arr, ok := u.Elem().Underlying().(*types.Array); ok {
				f.setVal(v, e.idxLit(fmt.Sprint(arr.Len())))
			} else {
				f.havocVal(v, "len of pointer")
			}
		default:
			f.havocVal(v, "len of "+cc.Args[0].Type().String())
		}
	case "append":
		f.appendModel(cc, v)
	case "copy":
		f.copyModel(cc, v)
	case "delete":
		mt := cc.Args[0].Type().Underlying().(*types.Map)
		md, _ := e.mapComps(mt)
		m, k := f.val(cc.Args[0]), f.val(cc.Args[1])
		hd := e.comp(f.st, md, e.comps[md])
		e.setComp(f.st, md, fmt.Sprintf("(store %s %s (store (select %s %s) %s false))", hd, m, hd, m, k))
	case "print", "println":
	case "recover":
		// only non-panicking executions are followed (a panic ends the path at the failing safety condition), so
		// recover() finds nothing to recover
		f.vals[v] = "nilIface"
		e.note("recover() returns nil: executions that panic are not followed past the panic")
	case "close":
		e.note("close(chan) not modelled")
	case "min", "max":
		x, y := f.val(cc.Args[0]), f.val(cc.Args[1])
		op := "<="
		if b.Name() == "max" {
			op = ">="
		}
		if e.bv() {
			op = map[string]string{"<=": "bvsle", ">=": "bvsge"}[op]
		}
		if len(cc.Args) == 2 && isInteger(v.Type()) {
			f.setVal(v, fmt.Sprintf("(ite (%s %s %s) %s %s)", op, x, y, x, y))
		} else {
			f.havocVal(v, "min/max")
		}
	case "ssa:wrapnilchk":
		f.vals[v] = f.val(cc.Args[0])
	default:
		e.fullHavoc(f.st, "builtin "+b.Name())
		if v != nil {
			if _, ok := v.Type().(*types.Tuple); !ok && v.Type() != nil {
				f.havocVal(v, "builtin "+b.Name())
			}
		}
	}
}

func (e *Enc) ufCard(mt *types.Map) string {
	name := "card_" + sortKey(e.sortOf(mt.Key()))
	if !e.ufSeen[name] {
		e.ufSeen[name] = true
		e.ufDecls = append(e.ufDecls, fmt.Sprintf("(declare-fun %s ((Array %s Bool)) %s)", name, e.sortOf(mt.Key()), e.idxSort()))
	}
	return name
}

func (f *Frame) appendModel(cc *ssa.CallCommon, v ssa.Value) {
	e := f.e
	sl := v.Type().Underlying().(*types.Slice)
	a := f.val(cc.Args[0])
	if len(cc.Args) < 2 {
		f.vals[v] = a
		return
	}
	if _, isStr := cc.Args[1].Type().Underlying().(*types.Basic); isStr {
		// append([]byte, string...)
		e.fullHavoc(f.st, "append of string bytes")
		f.havocVal(v, "append([]byte, string...)")
		return
	}
	b := f.val(cc.Args[1])
	comp := elemCompName(e, sl.Elem())
	es := e.sortOf(sl.Elem())
	rowSort := fmt.Sprintf("(Array %s %s)", e.idxSort(), es)
	E := e.comp(f.st, comp, e.elemSort(sl.Elem()))
	la, lb := fmt.Sprintf("(s_len %s)", a), fmt.Sprintf("(s_len %s)", b)
	newlen := e.define(f.prefix+"newlen", e.idxSort(), e.idxAdd(la, lb))
	inplace := e.define(f.prefix+"inplace", "Bool", e.idxLe(newlen, fmt.Sprintf("(s_cap %s)", a)))
	fresh := e.allocRef(f.st)
	newcap := e.freshConst(f.prefix+"newcap", e.idxSort())
	e.emit(fmt.Sprintf("(assert %s)", e.idxLe(newlen, newcap)))
	if e.bv() {
		e.emit(fmt.Sprintf("(assert (bvsle %s (_ bv4611686018427387904 64)))", newcap))
	} else {
		e.emit(fmt.Sprintf("(assert (<= %s 4611686018427387904))", newcap))
	}
	z := e.idxLit("0")
	res := fmt.Sprintf("(ite %s (mkSlice (s_arr %s) (s_off %s) %s (s_cap %s)) (mkSlice %s %s %s %s))", inplace, a, a, newlen, a, fresh, z, newlen, newcap)
	tgt := e.define(f.prefix+"tgt", "Int", fmt.Sprintf("(ite %s (s_arr %s) %s)", inplace, a, fresh))
	row := e.freshConst(f.prefix+"row", rowSort)
	rowA := fmt.Sprintf("(select %s (s_arr %s))", E, a)
	rowB := fmt.Sprintf("(select %s (s_arr %s))", E, b)
	start := e.define(f.prefix+"start", e.idxSort(), e.idxAdd(fmt.Sprintf("(s_off %s)", a), la))
	j := "|q.j|"
	inpl := fmt.Sprintf("(ite (and %s %s) (select %s %s) (select %s %s))",
		e.idxLe(start, j), e.idxLt(j, e.idxAdd(start, lb)), rowB, e.idxAdd(fmt.Sprintf("(s_off %s)", b), e.idxSub(j, start)), rowA, j)
	frsh := fmt.Sprintf("(ite (and %s %s) (select %s %s) (ite (and %s %s) (select %s %s) (select %s %s)))",
		e.idxLe(z, j), e.idxLt(j, la), rowA, e.idxAdd(fmt.Sprintf("(s_off %s)", a), j),
		e.idxLe(la, j), e.idxLt(j, newlen), rowB, e.idxAdd(fmt.Sprintf("(s_off %s)", b), e.idxSub(j, la)),
		row, j)
	e.emit(fmt.Sprintf("(assert (forall ((%s %s)) (! (= (select %s %s) (ite %s %s %s)) :pattern ((select %s %s)))))", j, e.idxSort(), row, j, inplace, inpl, frsh, row, j))
	e.setComp(f.st, comp, fmt.Sprintf("(store %s %s %s)", E, tgt, row))
	f.setVal(v, res)
}

func (f *Frame) copyModel(cc *ssa.CallCommon, v ssa.Value) {
	e := f.e
	dt := cc.Args[0].Type().Underlying().(*types.Slice)
	d := f.val(cc.Args[0])
	comp := elemCompName(e, dt.Elem())
	E := e.comp(f.st, comp, e.elemSort(dt.Elem()))
	rowSort := fmt.Sprintf("(Array %s %s)", e.idxSort(), e.sortOf(dt.Elem()))
	row := e.freshConst(f.prefix+"crow", rowSort)
	if _, isStr := cc.Args[1].Type().Underlying().(*types.Basic); isStr {
		e.setComp(f.st, comp, fmt.Sprintf("(store %s (s_arr %s) %s)", E, d, row))
		if v != nil {
			f.havocVal(v, "copy from string")
		}
		return
	}
	s := f.val(cc.Args[1])
	ld, ls := fmt.Sprintf("(s_len %s)", d), fmt.Sprintf("(s_len %s)", s)
	n := e.define(f.prefix+"cn", e.idxSort(), fmt.Sprintf("(ite %s %s %s)", e.idxLe(ld, ls), ld, ls))
	j := "|q.j|"
	offd, offs := fmt.Sprintf("(s_off %s)", d), fmt.Sprintf("(s_off %s)", s)
	rowD := fmt.Sprintf("(select %s (s_arr %s))", E, d)
	rowS := fmt.Sprintf("(select %s (s_arr %s))", E, s)
	body := fmt.Sprintf("(ite (and %s %s) (select %s %s) (select %s %s))", e.idxLe(offd, j), e.idxLt(j, e.idxAdd(offd, n)),
		rowS, e.idxAdd(offs, e.idxSub(j, offd)), rowD, j)
	e.emit(fmt.Sprintf("(assert (forall ((%s %s)) (! (= (select %s %s) %s) :pattern ((select %s %s)))))", j, e.idxSort(), row, j, body, row, j))
	e.setComp(f.st, comp, fmt.Sprintf("(store %s (s_arr %s) %s)", E, d, row))
	if v != nil {
		f.vals[v] = n
	}
}

// externalModel reports whether an exact model exists for the external function.
func (e *Enc) externalModel(callee *ssa.Function) bool {
	switch fnKey(callee) {
	case "strings.HasPrefix", "strings.HasSuffix", "strings.Contains", "strings.TrimPrefix", "strings.TrimSuffix", "strings.Index",
		"errors.New", "fmt.Errorf", "fmt.Sprintf", "fmt.Sprint", "strings.Repeat",
		"sync/atomic.LoadInt32", "sync/atomic.StoreInt32", "sync/atomic.AddInt32", "sync/atomic.CompareAndSwapInt32",
		"sync/atomic.LoadInt64", "sync/atomic.StoreInt64", "sync/atomic.AddInt64", "sort.Slice", "sort.SliceStable", "regexp.MustCompile", "regexp.(*Regexp).MatchString", "strings.Trim", "strings.Split", "strings.SplitN", "strings.ContainsAny":
		return true
	}
	return false
}

// externalCall applies built-in exact models of a few standard-library functions.
func (f *Frame) externalCall(callee *ssa.Function, args []string, argVals []ssa.Value, reach string, st *State, in ssa.Instruction) (callOut, bool) {
	e := f.e
	key := fnKey(callee)
	one := func(t string) (callOut, bool) {
		rt := callee.Signature.Results().At(0).Type()
		return callOut{reach, []string{e.define(f.prefix+"x", e.sortOf(rt), t)}, st}, true
	}
	if e.bv() && strings.HasPrefix(key, "strings.") {
		return callOut{}, false
	}
	switch key {
	case "strings.HasPrefix":
		return one(fmt.Sprintf("(str.prefixof %s %s)", args[1], args[0]))
	case "strings.HasSuffix":
		return one(fmt.Sprintf("(str.suffixof %s %s)", args[1], args[0]))
	case "strings.Contains":
		return one(fmt.Sprintf("(str.contains %s %s)", args[0], args[1]))
	case "strings.Index":
		return one(fmt.Sprintf("(str.indexof %s %s 0)", args[0], args[1]))
	case "strings.ContainsAny":
		// exact only for a constant set of ASCII characters: the disjunction of the single-character containments
		if c, ok := argVals[1].(*ssa.Const); ok && c.Value != nil && c.Value.Kind() == constant.String {
			chars := constant.StringVal(c.Value)
			ascii := true
			for _, r := range chars {
				if r >= 0x80 || r == '"' || r == '\\' || r < 0x20 {
					ascii = false
				}
			}
			if ascii {
				if chars == "" {
					return one("false")
				}
				var ds []string
				seen := map[rune]bool{}
				for _, r := range chars {
					if !seen[r] {
						seen[r] = true
						ds = append(ds, fmt.Sprintf("(str.contains %s \"%c\")", args[0], r))
					}
				}
				return one("(or " + strings.Join(ds, " ") + " false)")
			}
		}
		return callOut{}, false
	case "strings.TrimPrefix":
		s, p := args[0], args[1]
		return one(fmt.Sprintf("(ite (str.prefixof %s %s) (str.substr %s (str.len %s) (- (str.len %s) (str.len %s))) %s)", p, s, s, p, s, p, s))
	case "strings.TrimSuffix":
		s, p := args[0], args[1]
		return one(fmt.Sprintf("(ite (str.suffixof %s %s) (str.substr %s 0 (- (str.len %s) (str.len %s))) %s)", p, s, s, s, p, s))
	case "strings.Repeat":
		if e.unit.Safety {
			e.safetyOrd["repeat"]++
			e.oblige("safety", fmt.Sprintf("%s#safety[repeat#%d]", e.unit.Key(), e.safetyOrd["repeat"]), "repeat", reach, fmt.Sprintf("(>= %s 0)", args[1]), e.P.pos(in.Pos()))
		}
		r := e.define(f.prefix+"r", "Bool", fmt.Sprintf("(and %s (>= %s 0))", reach, args[1]))
		res := e.freshConst(f.prefix+"rep", "String")
		e.assume(r, fmt.Sprintf("(and (=> (= %s 0) (= %s \"\")) (=> (= %s 1) (= %s %s)))", args[1], res, args[1], res, args[0]))
		return callOut{r, []string{res}, st}, true
	case "errors.New", "fmt.Errorf":
		r := e.symbolic(f.prefix+"err", callee.Signature.Results().At(0).Type(), st, reach)
		e.assume(reach, fmt.Sprintf("(and (not (= (i_tag %s) 0)) (not (= (i_ref %s) 0)))", r, r))
		e.note("external model: %s returns a non-nil error (a non-nil pointer to a standard-library error value)", key)
		return callOut{reach, []string{r}, st}, true
	case "fmt.Sprintf", "fmt.Sprint":
		r := e.symbolic(f.prefix+"str", callee.Signature.Results().At(0).Type(), st, reach)
		return callOut{reach, []string{r}, st}, true
	case "regexp.MustCompile":
		// a regular expression given as a constant: remember its language for MatchString
		if c, ok := argVals[0].(*ssa.Const); ok && c.Value != nil && c.Value.Kind() == constant.String {
			if re, err := regexToSMT(constant.StringVal(c.Value)); err == nil {
				r := e.symbolic(f.prefix+"re", callee.Signature.Results().At(0).Type(), st, reach)
				e.assume(reach, fmt.Sprintf("(not (= %s 0))", r))
				if v, ok := in.(ssa.Value); ok {
					if f.regex == nil {
						f.regex = map[ssa.Value]string{}
					}
					f.regex[v] = re
				}
				e.note("assumed: regexp.MustCompile(%q).MatchString(s) is membership of s in the translated regular language", constant.StringVal(c.Value))
				return callOut{reach, []string{r}, st}, true
			} else {
				e.note("regular expression %q not translated: %v", constant.StringVal(c.Value), err)
			}
		}
		return callOut{}, false
	case "regexp.(*Regexp).MatchString":
		if re, ok := f.regex[argVals[0]]; ok {
			return one(fmt.Sprintf("(str.in_re %s %s)", args[1], re))
		}
		// a package-level *regexp.Regexp initialised once with regexp.MustCompile(<constant>) and never reassigned
		if ld, ok := argVals[0].(*ssa.UnOp); ok && ld.Op == token.MUL {
			if g, ok := ld.X.(*ssa.Global); ok {
				if re, ok := e.P.globalRegex(g); ok {
					e.note("assumed: the package-level regular expression %s is the language of its initialiser", g.Name())
					return one(fmt.Sprintf("(str.in_re %s %s)", args[1], re))
				}
			}
		}
		return callOut{}, false
	case "strings.Trim":
		// Trim(s, c) for a one-character constant cutset: s = c* r c*, r neither begins nor ends with c
		if c, ok := argVals[1].(*ssa.Const); ok && c.Value != nil && c.Value.Kind() == constant.String && len(constant.StringVal(c.Value)) == 1 {
			lit := smtStringLit(constant.StringVal(c.Value))
			r := e.freshConst(f.prefix+"trim", "String")
			pre, post := e.freshConst(f.prefix+"trimpre", "String"), e.freshConst(f.prefix+"trimpost", "String")
			e.assume(reach, fmt.Sprintf("(and (= %s (str.++ %s %s %s)) (str.in_re %s (re.* (str.to_re %s))) (str.in_re %s (re.* (str.to_re %s))) (not (str.prefixof %s %s)) (not (str.suffixof %s %s)))",
				args[0], pre, r, post, pre, lit, post, lit, lit, r, lit, r))
			return callOut{reach, []string{r}, st}, true
		}
		return callOut{}, false
	case "strings.Split", "strings.SplitN":
		// Split(s, sep) / SplitN(s, sep, n) with a non-empty constant separator and (for SplitN) n >= 2 constant:
		// a fresh slice; one element (s itself) iff sep does not occur; otherwise the first element is the text before
		// the first occurrence, and for SplitN(.., 2) the second is everything after it.
		c, ok := argVals[1].(*ssa.Const)
		if !ok || c.Value == nil || c.Value.Kind() != constant.String || constant.StringVal(c.Value) == "" {
			return callOut{}, false
		}
		n := int64(-1)
		if key == "strings.SplitN" {
			nc, ok := argVals[2].(*ssa.Const)
			if !ok || nc.Value == nil {
				return callOut{}, false
			}
			n, _ = constant.Int64Val(nc.Value)
			if n < 2 {
				return callOut{}, false
			}
		}
		sep := args[1]
		sl := types.NewSlice(types.Typ[types.String])
		ref := e.allocRef(st)
		comp := elemCompName(e, types.Typ[types.String])
		rowSort := fmt.Sprintf("(Array %s String)", e.idxSort())
		h := e.comp(st, comp, fmt.Sprintf("(Array Int %s)", rowSort))
		row := e.freshConst(f.prefix+"splitrow", rowSort)
		e.setComp(st, comp, fmt.Sprintf("(store %s %s %s)", h, ref, row))
		ln := e.freshConst(f.prefix+"splitlen", e.idxSort())
		res := e.define(f.prefix+"split", "Slice", fmt.Sprintf("(mkSlice %s %s %s %s)", ref, e.idxLit("0"), ln, ln))
		_ = sl
		has := fmt.Sprintf("(str.contains %s %s)", args[0], sep)
		idx := fmt.Sprintf("(str.indexof %s %s 0)", args[0], sep)
		first := fmt.Sprintf("(select %s %s)", row, e.idxLit("0"))
		e.assume(reach, fmt.Sprintf("(and %s (= (not %s) (= %s %s)) (=> (not %s) (= %s %s)))",
			e.idxLe(e.idxLit("1"), ln), has, ln, e.idxLit("1"), has, first, args[0]))
		if n == 2 {
			e.assume(reach, fmt.Sprintf("(=> %s (= %s (str.substr %s 0 %s)))", has, first, args[0], idx))
		}
		if n == 2 {
			second := fmt.Sprintf("(select %s %s)", row, e.idxLit("1"))
			e.assume(reach, fmt.Sprintf("(and %s (=> %s (and (= %s %s) (= %s (str.substr %s (+ %s (str.len %s)) (str.len %s))))))",
				e.idxLe(ln, e.idxLit("2")), has, ln, e.idxLit("2"), second, args[0], idx, sep, args[0]))
		}
		e.note("assumed: model of %s (fresh slice; one element, the string itself, iff the separator does not occur; SplitN(..,2): text before / after the first separator)", key)
		return callOut{reach, []string{res}, st}, true
	case "sort.Slice", "sort.SliceStable":
		if out, ok := f.sortSliceModel(callee, argVals, reach, st, in); ok {
			return out, true
		}
		return callOut{}, false
	}
	if isAtomic(callee) && len(argVals) > 0 {
		p := f.placeOf(argVals[0])
		name := callee.Name()
		switch {
		case strings.HasPrefix(name, "Load"):
			return callOut{reach, []string{e.load(st, p)}, st}, true
		case strings.HasPrefix(name, "Store"):
			f.storeGuard(argVals[0], args[1], in)
			e.store(st, p, args[1])
			return callOut{reach, nil, st}, true
		case strings.HasPrefix(name, "Add"):
			cur := e.load(st, p)
			var nv string
			if e.bv() {
				nv = fmt.Sprintf("(bvadd %s %s)", cur, args[1])
			} else {
				nv = fmt.Sprintf("(+ %s %s)", cur, args[1])
			}
			nv = e.define(f.prefix+"atom", e.sortOf(p.finalType()), nv)
			e.store(st, p, nv)
			return callOut{reach, []string{nv}, st}, true
		case strings.HasPrefix(name, "CompareAndSwap"):
			cur := e.load(st, p)
			ok := e.define(f.prefix+"cas", "Bool", fmt.Sprintf("(= %s %s)", cur, args[1]))
			e.store(st, p, fmt.Sprintf("(ite %s %s %s)", ok, args[2], cur))
			return callOut{reach, []string{ok}, st}, true
		}
	}
	return callOut{}, false
}

// inlineClosure encodes the body of a closure created in this frame.
func (f *Frame) inlineClosure(mc *ssa.MakeClosure, args []string, reach string, st *State) callOut {
	e := f.e
	fn := mc.Fn.(*ssa.Function)
	if !e.canInline(fn, f.depth) {
		e.fullHavoc(st, "closure "+fn.Name()+" not inlinable")
		for _, b := range mc.Bindings {
			// private locals captured by the closure may be written by it
			if p, ok := f.places[b]; ok && strings.HasPrefix(p.comp, "L_") {
				e.havocComp(st, p.comp)
			}
		}
		return callOut{reach, f.symbolicResults(fn.Signature, st, reach, fn.Name()), st}
	}
	nf := e.newFrame(fn, f.depth+1)
	nf.chain = append(append([]string{}, f.chain...), fnKey(f.fn))
	for i, fv := range fn.FreeVars {
		b := mc.Bindings[i]
		if p, ok := f.places[b]; ok {
			nf.places[fv] = p
		} else {
			nf.vals[fv] = f.val(b)
		}
	}
	nf.encodeBody(args, reach, st)
	r, rs, nst, ok := nf.mergeReturns()
	if !ok {
		return callOut{"false", f.symbolicResults(fn.Signature, st, "false", fn.Name()), st}
	}
	return callOut{r, rs, nst}
}

// modTargetsExpr: heap locations named by a modifies expression.
func (e *Enc) modTargetsExpr(env *CEnv, x ast.Expr) []modTarget {
	if call, ok := x.(*ast.CallExpr); ok {
		if id, ok := call.Fun.(*ast.Ident); ok {
			switch id.Name {
			case "elems":
				v := env.ev(call.Args[0])
				sl, ok := v.T.Underlying().(*types.Slice)
				if !ok {
					env.fail("elems of non-slice")
					return nil
				}
				comp := elemCompName(e, sl.Elem())
				e.comp(env.st, comp, e.elemSort(sl.Elem()))
				return []modTarget{{comp: comp, ref: "(s_arr " + v.S + ")", typ: sl.Elem(), kind: "row"}}
			case "any":
				ts := e.modTargetsExpr(env, call.Args[0])
				for i := range ts {
					ts[i].ref = "*"
				}
				return ts
			case "mapof":
				v := env.ev(call.Args[0])
				mt, ok := v.T.Underlying().(*types.Map)
				if !ok {
					env.fail("mapof of non-map")
					return nil
				}
				md, mv := e.mapComps(mt)
				e.comp(env.st, md, e.comps[md])
				e.comp(env.st, mv, e.comps[mv])
				return []modTarget{{comp: md, ref: v.S, kind: "map"}, {comp: mv, ref: v.S, kind: "map"}}
			}
		}
	}
	v := env.ev(x)
	if v.Place == nil {
		env.fail("modifies clause %s does not denote a location", exprString(x))
		return nil
	}
	ts := e.placeTargets(v.Place)
	for _, t := range ts {
		switch t.kind {
		case "cell":
			e.comp(env.st, t.comp, fmt.Sprintf("(Array Int %s)", e.sortOf(t.typ)))
		case "global":
			e.comp(env.st, t.comp, e.sortOf(t.typ))
		}
	}
	return ts
}

// modClauseComps: component names a callee's modifies clause can touch (static).
func (e *Enc) modClauseComps(c *Contract, callee *ssa.Function, m *Clause) []string {
	// evaluate on a scratch state with symbolic parameters
	st := &State{h: map[string]string{}, epoch: 9999, alloc: "0"}
	vars := map[string]CVal{}
	if callee != nil {
		for _, p := range callee.Params {
			vars[p.Name()] = CVal{S: "0", T: p.Type()}
		}
	}
	errs := []string{}
	env := &CEnv{e: e, vars: vars, st: st, old: st, pkg: e.P.declPkg(c, callee), lets: c.Lets, errs: &errs}
	if callee != nil && len(callee.Params) == 0 && callee.Signature.Recv() != nil {
		vars["self"] = CVal{S: "0", T: callee.Signature.Recv().Type()}
	}
	save := len(e.script)
	var names []string
	for _, t := range e.modTargetsExpr(env, m.Expr) {
		names = append(names, t.comp)
	}
	// drop declarations made on the scratch state (they are harmless but keep the script tidy)
	_ = save
	return names
}

// modRefs: references of component comp excluded from the unit's frame (its modifies clauses).
func (f *Frame) modRefs(comp string) []string {
	e := f.e
	var refs []string
	errs := []string{}
	env := &CEnv{e: e, vars: f.params, st: f.entrySt, old: f.entrySt, pkg: f.fn.Pkg.Pkg, lets: e.unit.Lets, errs: &errs}
	for _, m := range e.unit.Modifies {
		for _, t := range e.modTargetsExpr(env, m.Expr) {
			if t.comp == comp {
				refs = append(refs, t.ref)
			}
		}
	}
	return refs
}

// sortSliceModel: sort.Slice / sort.SliceStable(x, less) with less a closure created in this frame. The elements
// of x are replaced by a permutation of themselves (assumed contract of package sort). When the unit has a
// "sortby k: E(i, j)" clause for this call site, (a) an obligation shows that the closure computes exactly E for
// arbitrary in-range indices over arbitrary element values, and (b) the result is assumed sorted by E:
// forall a < b: !E(b, a).
func (f *Frame) sortSliceModel(callee *ssa.Function, argVals []ssa.Value, reach string, st *State, in ssa.Instruction) (callOut, bool) {
	e := f.e
	if len(argVals) != 2 {
		return callOut{}, false
	}
	mi, ok := argVals[0].(*ssa.MakeInterface)
	if !ok {
		return callOut{}, false
	}
	sl, ok := mi.X.Type().Underlying().(*types.Slice)
	if !ok {
		return callOut{}, false
	}
	mc, _ := argVals[1].(*ssa.MakeClosure)
	x := f.val(mi.X)
	pre := st.clone()
	comp := elemCompName(e, sl.Elem())
	e.havocTarget(st, modTarget{comp: comp, ref: "(s_arr " + x + ")", typ: sl.Elem(), kind: "row"})
	errs := []string{}
	env := &CEnv{e: e, vars: map[string]CVal{"x": {S: x, T: mi.X.Type()}}, st: st, old: pre, pkg: f.fn.Pkg.Pkg, errs: &errs}
	for _, txt := range []string{
		"forall(j, 0, len(x), exists(i, 0, len(x), x[j] == old(x[i])))",
		"forall(j, 0, len(x), exists(i, 0, len(x), old(x[j]) == x[i]))",
		"implies(old(forall(i, 0, len(x), forall(j, i + 1, len(x), x[i] != x[j]))), forall(i, 0, len(x), forall(j, i + 1, len(x), x[i] != x[j])))",
	} {
		ex, _, err := parseCExpr(txt)
		if err != nil {
			panic(err)
		}
		e.assume(reach, env.evalBool(ex))
	}
	e.note("assumed contract: %s permutes the elements of its slice argument", fnKey(callee))
	// ordinal of this call among the sort.Slice* calls of the function (source order)
	k := 0
	if f.depth == 0 {
		var poss []int
		for _, b := range f.fn.Blocks {
			for _, i2 := range b.Instrs {
				if c, ok := i2.(ssa.CallInstruction); ok {
					if sc := c.Common().StaticCallee(); sc != nil && (fnKey(sc) == "sort.Slice" || fnKey(sc) == "sort.SliceStable") {
						poss = append(poss, int(i2.Pos()))
					}
				}
			}
		}
		sort.Ints(poss)
		for i, p := range poss {
			if p == int(in.Pos()) {
				k = i + 1
			}
		}
	}
	// several sortby clauses may name the same call (one per property that relies on the order): the first gives
	// the assumed order after the call, each one gets its own obligations
	var clause *Clause
	var moreClauses []*Clause
	for _, c := range e.unit.SortBy {
		if c.Loop == k && k > 0 {
			if clause == nil {
				clause = c
			} else {
				moreClauses = append(moreClauses, c)
			}
		}
	}
	if clause == nil || mc == nil {
		if clause != nil {
			e.P.contractError("%s: sortby %d: the less argument is not a closure literal", clause.Line, k)
		}
		return callOut{reach, nil, st}, true
	}
	fn := mc.Fn.(*ssa.Function)
	if len(fn.Params) != 2 {
		return callOut{reach, nil, st}, true
	}
	n := fmt.Sprintf("(s_len %s)", x)
	// (a) the closure computes the sortby expression
	ci, cj := e.freshConst("sorti", e.idxSort()), e.freshConst("sortj", e.idxSort())
	rng := fmt.Sprintf("(and %s %s %s %s)", e.idxLe(e.idxLit("0"), ci), e.idxLt(ci, n), e.idxLe(e.idxLit("0"), cj), e.idxLt(cj, n))
	r0 := e.define(f.prefix+"sr", "Bool", fmt.Sprintf("(and %s %s)", reach, rng))
	scratch := st.clone()
	out := f.inlineClosure(mc, []string{ci, cj}, r0, scratch)
	blk := in.Block()
	specEnv := func(a, b string, s *State) *CEnv {
		es := []string{}
		ev := &CEnv{e: e, vars: map[string]CVal{}, st: s, old: f.entrySt, pkg: f.fn.Pkg.Pkg, frame: f, at: blk, lets: e.unit.Lets, errs: &es}
		for kk, v := range f.params {
			ev.vars[kk] = v
		}
		ev.vars[fn.Params[0].Name()] = CVal{S: a, T: fn.Params[0].Type()}
		ev.vars[fn.Params[1].Name()] = CVal{S: b, T: fn.Params[1].Type()}
		return ev
	}
	lab := clause.Label
	if lab == "" {
		lab = fmt.Sprintf("s%d", k)
	}
	ev := specEnv(ci, cj, st)
	spec := ev.evalBool(clause.Expr)
	f.reportEnvErrs(ev, clause)
	if len(out.results) == 1 {
		o := e.oblige("sortby", fmt.Sprintf("%s#sortby[%d.%s].less", e.unit.Key(), k, lab), lab, out.reach, fmt.Sprintf("(= %s %s)", out.results[0], spec), clause.Line)
		_ = o
		// the closure must not panic for in-range indices
		e.oblige("sortby", fmt.Sprintf("%s#sortby[%d.%s].total", e.unit.Key(), k, lab), lab, r0, out.reach, clause.Line)
		for _, mcl := range moreClauses {
			ml := mcl.Label
			if ml == "" {
				ml = fmt.Sprintf("s%d", k)
			}
			evm := specEnv(ci, cj, st)
			specm := evm.evalBool(mcl.Expr)
			f.reportEnvErrs(evm, mcl)
			e.oblige("sortby", fmt.Sprintf("%s#sortby[%d.%s].less", e.unit.Key(), k, ml), ml, out.reach, fmt.Sprintf("(= %s %s)", out.results[0], specm), mcl.Line)
			e.oblige("sortby", fmt.Sprintf("%s#sortby[%d.%s].total", e.unit.Key(), k, ml), ml, r0, out.reach, mcl.Line)
		}
	}
	// (b) sorted by the expression
	qa, qb := "|q.sorta|", "|q.sortb|"
	ev2 := specEnv(qb, qa, st)
	body := ev2.evalBool(clause.Expr)
	f.reportEnvErrs(ev2, clause)
	is := e.idxSort()
	e.assume(reach, fmt.Sprintf("(forall ((%s %s) (%s %s)) (=> (and %s %s %s) (not %s)))", qa, is, qb, is, e.idxLe(e.idxLit("0"), qa), e.idxLt(qa, qb), e.idxLt(qb, n), body))
	return callOut{reach, nil, st}, true
}
