package main

import (
	"fmt"
	"go/constant"
	"go/token"
	"go/types"
	"os"
	"path/filepath"
	"sort"
	"strings"

	"golang.org/x/tools/go/packages"
	"golang.org/x/tools/go/ssa"
	"golang.org/x/tools/go/ssa/ssautil"
)

const modulePath = "github.com/risor-io/risor"

type Program struct {
	prog           *ssa.Program
	pkgs           []*packages.Package
	CS             *ContractSet
	fnByKey        map[string]*ssa.Function
	anonByKey      map[string]*ssa.Function
	allTypesPkgs   []*types.Package
	typesByPath    map[string]*types.Package
	errs           []string
	fset           *token.FileSet
	repo           string
	declPkgOf      map[string]string // contract key -> declaring package path
	overlayUsed    []string
	overlayDiffers []string
}

func (p *Program) contractError(format string, args ...any) {
	msg := fmt.Sprintf(format, args...)
	for _, e := range p.errs {
		if e == msg {
			return
		}
	}
	p.errs = append(p.errs, msg)
}

func (p *Program) pos(pos token.Pos) string {
	if !pos.IsValid() {
		return ""
	}
	ps := p.fset.Position(pos)
	rel, err := filepath.Rel(p.repo, ps.Filename)
	if err != nil {
		rel = ps.Filename
	}
	return fmt.Sprintf("%s:%d", rel, ps.Line)
}

// loadProgram loads the given package patterns of the repository with tag verif. Contract files
// found under contractsDir/<pkg>/contracts_verif.go are overlaid onto repo/<pkg>/contracts_verif.go
// when the repository does not carry the file itself.
func loadProgram(repo, contractsDir string, patterns []string) (*Program, error) {
	overlay := map[string][]byte{}
	p := &Program{CS: newContractSet(), fnByKey: map[string]*ssa.Function{}, anonByKey: map[string]*ssa.Function{}, typesByPath: map[string]*types.Package{}, repo: repo, declPkgOf: map[string]string{}}
	filepath.Walk(contractsDir, func(path string, info os.FileInfo, err error) error {
		if err != nil || info.IsDir() || !strings.HasSuffix(path, "_verif.go") {
			return nil
		}
		rel, _ := filepath.Rel(contractsDir, path)
		target := filepath.Join(repo, rel)
		src, err := os.ReadFile(path)
		if err != nil {
			return nil
		}
		// The contract files are maintained in contractsDir and mirrored into the repository by a tag-guarded hook
		// commit. The maintained copy is what is checked; a repository copy that differs (or is missing) is noted.
		if have, err := os.ReadFile(target); err == nil && string(have) == string(src) {
			return nil // identical copy in the repository: load it from there
		} else if err == nil {
			p.overlayDiffers = append(p.overlayDiffers, rel)
		}
		overlay[target] = src
		p.overlayUsed = append(p.overlayUsed, rel)
		return nil
	})
	cfg := &packages.Config{
		Mode:       packages.LoadAllSyntax,
		Dir:        repo,
		BuildFlags: []string{"-tags=verif"},
		Env:        append(os.Environ(), "GOWORK=off", "GOFLAGS=-mod=mod", "GOPROXY=off", "GOSUMDB=off"),
		Overlay:    overlay,
	}
	pkgs, err := packages.Load(cfg, patterns...)
	if err != nil {
		return nil, err
	}
	nerr := 0
	packages.Visit(pkgs, nil, func(pk *packages.Package) {
		for _, e := range pk.Errors {
			fmt.Fprintln(os.Stderr, "load error:", e)
			nerr++
		}
	})
	if nerr > 0 {
		return nil, fmt.Errorf("%d package load errors", nerr)
	}
	prog, _ := ssautil.AllPackages(pkgs, ssa.GlobalDebug)
	prog.Build()
	p.prog = prog
	p.pkgs = pkgs
	p.fset = prog.Fset
	packages.Visit(pkgs, nil, func(pk *packages.Package) {
		if pk.Types != nil {
			p.allTypesPkgs = append(p.allTypesPkgs, pk.Types)
			p.typesByPath[pk.PkgPath] = pk.Types
		}
		if !strings.HasPrefix(pk.PkgPath, modulePath) {
			return
		}
		for i, f := range pk.CompiledGoFiles {
			if !strings.HasSuffix(f, "_verif.go") {
				continue
			}
			src, ok := overlay[f]
			if !ok {
				var err error
				src, err = os.ReadFile(f)
				if err != nil {
					continue
				}
			}
			_ = i
			before := len(p.CS.Order)
			p.CS.parseContractSource(pk.PkgPath, f, src)
			for _, k := range p.CS.Order[before:] {
				p.declPkgOf[k] = pk.PkgPath
			}
		}
	})
	sort.Slice(p.allTypesPkgs, func(i, j int) bool { return p.allTypesPkgs[i].Path() < p.allTypesPkgs[j].Path() })
	for fn := range ssautil.AllFunctions(prog) {
		if fn.Synthetic != "" && fn.Name() != "init" {
			continue
		}
		if fn.Parent() != nil {
			// function literals can be put under contract as <pkg>.<outer>$<n> (they are not enumerated by scans,
			// which reach them through their parents)
			if fn.Pkg != nil {
				p.anonByKey[fn.Pkg.Pkg.Path()+"."+fn.Name()] = fn
			}
			continue
		}
		p.fnByKey[fnKey(fn)] = fn
	}
	p.expandPkgCallPres()
	p.errs = append(p.errs, p.CS.Errors...)
	return p, nil
}

// expandPkgCallPres turns the package-wide caller-side rules into callpre clauses of the units of the calling
// functions (creating "trusted callpre" units for callers that have none).
func (p *Program) expandPkgCallPres() {
	if len(p.CS.PkgCallPres) == 0 {
		return
	}
	var keys []string
	for k := range p.fnByKey {
		keys = append(keys, k)
	}
	sort.Strings(keys)
	for _, rule := range p.CS.PkgCallPres {
		users := 0
		for _, key := range keys {
			fn := p.fnByKey[key]
			if fn.Pkg == nil || fn.Pkg.Pkg.Path() != rule.Pkg {
				continue
			}
			calls := false
			for _, b := range fn.Blocks {
				for _, in := range b.Instrs {
					ci, ok := in.(ssa.CallInstruction)
					if !ok {
						continue
					}
					if callee := ci.Common().StaticCallee(); callee != nil && callee.Name() == rule.Clause.Raw {
						calls = true
					}
				}
			}
			if !calls {
				continue
			}
			skip := false
			for _, x := range rule.Except {
				if strings.TrimPrefix(key, rule.Pkg+".") == x {
					skip = true
				}
			}
			if skip {
				continue
			}
			users++
			c := p.CS.Funcs[key]
			if c == nil {
				c = &Contract{Pkg: rule.Pkg, FuncName: strings.TrimPrefix(key, rule.Pkg+"."), Mode: "int", Pos: rule.Clause.Line, Trusted: true, TrustedPart: true, Inline: true}
				p.CS.Funcs[key] = c
				p.CS.Order = append(p.CS.Order, key)
				p.declPkgOf[key] = rule.Pkg
				// assumed of the inputs of such a unit: the receiver is not nil and no interface-typed parameter is a
				// typed nil (listed with the unit's assumptions in the evidence)
				for i, prm := range fn.Params {
					text := ""
					if i == 0 && fn.Signature.Recv() != nil {
						text = prm.Name() + " != nil"
					} else if _, ok := prm.Type().Underlying().(*types.Interface); ok {
						text = fmt.Sprintf("%s == nil || ref(%s) != nil", prm.Name(), prm.Name())
					}
					if text == "" || prm.Name() == "" || prm.Name() == "_" {
						continue
					}
					if e, pp, err := parseCExpr(text); err == nil {
						c.Assumes = append(c.Assumes, &Clause{Label: "params.wf", Text: pp, Raw: text, Expr: e, Line: rule.Clause.Line})
					}
				}
			}
			if c.Trusted && !c.TrustedPart {
				p.CS.Errors = append(p.CS.Errors, fmt.Sprintf("%s: pkgcallpre %s: caller %s is a trusted unit (its body is not encoded)", rule.Clause.Line, rule.Clause.Raw, key))
				continue
			}
			dup := false
			for _, have := range c.CallPres {
				if have.Raw == rule.Clause.Raw && have.Label == rule.Clause.Label {
					dup = true
				}
			}
			if !dup {
				c.CallPres = append(c.CallPres, rule.Clause)
			}
			for _, pr := range rule.Props {
				has := false
				for _, q := range c.Props {
					if q == pr {
						has = true
					}
				}
				if !has {
					c.Props = append(c.Props, pr)
				}
			}
		}
		if users == 0 {
			p.CS.Errors = append(p.CS.Errors, fmt.Sprintf("%s: pkgcallpre %s: no function of %s calls it", rule.Clause.Line, rule.Clause.Raw, rule.Pkg))
		}
	}
}

func (p *Program) contractFor(fn *ssa.Function) *Contract {
	return p.CS.Funcs[fnKey(fn)]
}

func (p *Program) ifaceContract(cc *ssa.CallCommon) *Contract {
	t := cc.Value.Type()
	named, ok := t.(*types.Named)
	if !ok || named.Obj().Pkg() == nil {
		return nil
	}
	if c := p.CS.Funcs[named.Obj().Pkg().Path()+".("+named.Obj().Name()+")."+cc.Method.Name()]; c != nil {
		return c
	}
	// the method may be declared by an interface embedded in the static type
	it, ok := named.Underlying().(*types.Interface)
	if !ok {
		return nil
	}
	for i := 0; i < it.NumEmbeddeds(); i++ {
		if en, ok := it.EmbeddedType(i).(*types.Named); ok && en.Obj().Pkg() != nil {
			if c := p.CS.Funcs[en.Obj().Pkg().Path()+".("+en.Obj().Name()+")."+cc.Method.Name()]; c != nil {
				return c
			}
		}
	}
	return nil
}

func (p *Program) isExternal(fn *ssa.Function) bool {
	if fn.Pkg == nil {
		if fn.Parent() != nil {
			return p.isExternal(fn.Parent())
		}
		// methods of instantiated generics etc.
		if recv := fn.Signature.Recv(); recv != nil {
			t := recv.Type()
			if pt, ok := t.(*types.Pointer); ok {
				t = pt.Elem()
			}
			if n, ok := t.(*types.Named); ok && n.Obj().Pkg() != nil {
				return !strings.HasPrefix(n.Obj().Pkg().Path(), modulePath)
			}
		}
		return true
	}
	return !strings.HasPrefix(fn.Pkg.Pkg.Path(), modulePath)
}

func (p *Program) declPkg(c *Contract, callee *ssa.Function) *types.Package {
	if dp, ok := p.declPkgOf[c.Key()]; ok {
		if tp := p.typesByPath[dp]; tp != nil {
			return tp
		}
	}
	if callee != nil && callee.Pkg != nil {
		return callee.Pkg.Pkg
	}
	return nil
}

func (p *Program) globalFor(v *types.Var) *ssa.Global {
	if v.Pkg() == nil {
		return nil
	}
	sp := p.prog.Package(v.Pkg())
	if sp == nil {
		return nil
	}
	if g, ok := sp.Members[v.Name()].(*ssa.Global); ok {
		return g
	}
	return nil
}

// globalRegex: the RegLan term of a package-level variable that is assigned exactly once, in its package
// initialiser, with regexp.MustCompile(<constant>), and stored to nowhere else in the package.
func (p *Program) globalRegex(g *ssa.Global) (string, bool) {
	if g.Pkg == nil {
		return "", false
	}
	var lit string
	n := 0
	for _, m := range g.Pkg.Members {
		fn, ok := m.(*ssa.Function)
		if !ok {
			continue
		}
		var walk func(f *ssa.Function)
		walk = func(f *ssa.Function) {
			for _, b := range f.Blocks {
				for _, in := range b.Instrs {
					st, ok := in.(*ssa.Store)
					if !ok || st.Addr != ssa.Value(g) {
						continue
					}
					n++
					if f.Name() != "init" || f.Synthetic == "" {
						n += 100 // assigned outside the synthesized initialiser
						continue
					}
					if call, ok := st.Val.(*ssa.Call); ok {
						if sc := call.Call.StaticCallee(); sc != nil && fnKey(sc) == "regexp.MustCompile" && len(call.Call.Args) == 1 {
							if c, ok := call.Call.Args[0].(*ssa.Const); ok && c.Value != nil && c.Value.Kind() == constant.String {
								lit = constant.StringVal(c.Value)
								continue
							}
						}
					}
					n += 100
				}
			}
			for _, a := range f.AnonFuncs {
				walk(a)
			}
		}
		walk(fn)
	}
	// methods of the package's types may also store to the variable
	for _, fn := range p.fnByKey {
		if fn.Pkg == g.Pkg && fn.Signature.Recv() != nil {
			for _, b := range fn.Blocks {
				for _, in := range b.Instrs {
					if st, ok := in.(*ssa.Store); ok && st.Addr == ssa.Value(g) {
						n += 100
					}
				}
			}
		}
	}
	if n != 1 || lit == "" {
		return "", false
	}
	re, err := regexToSMT(lit)
	if err != nil {
		return "", false
	}
	return re, true
}
