package main

// Commutativity obligations for map-range loops (C05): executing the loop body for two distinct keys in either
// order must leave every loop-carried variable and every modified heap component equal, and must not leave the
// loop. Adjacent transpositions generate all orders, so the loop's effect is a function of the map's contents.

import (
	"fmt"
	"go/types"
	"sort"
	"strings"

	"golang.org/x/tools/go/ssa"
)

// mapRangeLoops lists the map-range loop headers of fn in source order.
func mapRangeLoops(fn *ssa.Function) []*ssa.BasicBlock {
	var hs []*ssa.BasicBlock
	for _, b := range fn.Blocks {
		for _, in := range b.Instrs {
			if nx, ok := in.(*ssa.Next); ok && !nx.IsString {
				isHeader := false
				for _, p := range b.Preds {
					if b.Dominates(p) {
						isHeader = true
					}
				}
				if isHeader {
					hs = append(hs, b)
				}
			}
		}
	}
	sort.Slice(hs, func(i, j int) bool { return hs[i].Index < hs[j].Index })
	return hs
}

// encodeCommute generates the commutativity obligation(s) for the n-th map-range loop of the unit's function.
func (p *Program) encodeCommute(c *Contract, n int, label string) *UnitResult {
	res := &UnitResult{Key: c.Key(), Contract: c}
	fn := p.fnByKey[c.Key()]
	if fn == nil || len(fn.Blocks) == 0 {
		res.Missing = true
		return res
	}
	hs := mapRangeLoops(fn)
	if n < 1 || n > len(hs) {
		res.Missing = true
		return res
	}
	h := hs[n-1]
	e := newEnc(p, c, fn)
	e.commuteMode = true
	res.Enc = e
	st0 := &State{h: map[string]string{}, epoch: 0}
	st0.alloc = e.declare("alloc0", "Int")
	e.emit("(assert (>= alloc0 0))")
	e.st0 = st0
	var next *ssa.Next
	for _, in := range h.Instrs {
		if nx, ok := in.(*ssa.Next); ok {
			next = nx
		}
	}
	rng := next.Iter.(*ssa.Range)
	mt := rng.X.Type().Underlying().(*types.Map)
	k1 := e.declare("|k1|", e.sortOf(mt.Key()))
	k2 := e.declare("|k2|", e.sortOf(mt.Key()))
	e.emit(fmt.Sprintf("(assert (not (= %s %s)))", k1, k2))
	e.assume("true", e.typeFact(k1, mt.Key(), st0))
	e.assume("true", e.typeFact(k2, mt.Key(), st0))
	// walk the function up to the loop head (the pre-loop code is encoded normally, the head is havocked as for
	// any loop), then run two iterations from there in both orders
	f0 := e.newFrame(fn, 0)
	f0.top = true
	f0.params = map[string]CVal{}
	var args0 []string
	for _, prm := range fn.Params {
		n := e.declare("|p."+prm.Name()+"|", e.sortOf(prm.Type()))
		e.assume("true", e.typeFact(n, prm.Type(), st0))
		args0 = append(args0, n)
		f0.params[prm.Name()] = CVal{S: n, T: prm.Type()}
	}
	{
		errs := []string{}
		env := &CEnv{e: e, vars: f0.params, st: st0, old: st0, pkg: fn.Pkg.Pkg, lets: c.Lets, errs: &errs}
		for _, r := range c.Requires {
			e.assume("true", env.evalBool(r.Expr))
		}
		for _, m := range errs {
			p.contractError("%s: %s", c.Pos, m)
		}
	}
	f0.stopAt = h
	f0.encodeBody(args0, "true", st0.clone())
	if !f0.stopped {
		res.Missing = true
		return res
	}
	headReach, headSt := f0.reach, f0.st
	{
		// assume clauses of a commute unit describe the state at the loop head
		errs := []string{}
		env := &CEnv{e: e, vars: f0.params, st: headSt, old: st0, pkg: fn.Pkg.Pkg, lets: c.Lets, errs: &errs, frame: f0, at: h}
		for _, r := range c.Assumes {
			e.assume(headReach, env.evalBool(r.Expr))
			e.note("assumed at the loop head of %s [%s]: %s", shortKey(c.Key()), r.Label, r.Raw)
		}
		for _, m := range errs {
			p.contractError("%s: %s", c.Pos, m)
		}
	}
	phi0 := map[*ssa.Phi]string{}
	for _, in := range h.Instrs {
		if phi, ok := in.(*ssa.Phi); ok {
			phi0[phi] = f0.vals[phi]
		}
	}
	md, _ := e.mapComps(mt)
	runOrder := func(first, second string, tag string) (st *State, phis map[*ssa.Phi]string, exits []string, ok bool) {
		st = headSt.clone()
		phis = phi0
		for step, key := range []string{first, second} {
			e.commuteKey = key
			e.commuteSite = 0
			f := e.newFrame(fn, 0)
			f.top = true
			f.params = f0.params
			f.prefix = fmt.Sprintf("%s%d.", tag, step)
			for k, v := range f0.vals {
				f.vals[k] = v
			}
			for k, v := range f0.places {
				f.places[k] = v
			}
			for k, v := range f0.tuples {
				f.tuples[k] = v
			}
			for _, b := range fn.Blocks {
				for _, s := range b.Succs {
					if s.Dominates(b) {
						f.back[[2]int{b.Index, s.Index}] = true
					}
				}
			}
			blocks := f.loopBlocks(h)
			f.region = &regionSpec{blocks: blocks, header: h, next: next, ok: "true", key: key, phiVals: phis}
			f.encodeBody(args0, headReach, st)
			if len(f.region.outs) == 0 {
				return nil, nil, nil, false
			}
			var conds []string
			var states []*State
			for _, o := range f.region.outs {
				conds = append(conds, o.cond)
				states = append(states, o.st)
			}
			st = e.mergeStates(conds, states)
			np := map[*ssa.Phi]string{}
			for phi := range phi0 {
				expr := f.region.outs[len(f.region.outs)-1].phis[phi]
				for i := len(f.region.outs) - 2; i >= 0; i-- {
					if f.region.outs[i].phis[phi] != expr {
						expr = fmt.Sprintf("(ite %s %s %s)", conds[i], f.region.outs[i].phis[phi], expr)
					}
				}
				np[phi] = e.define(tag+phi.Name(), e.sortOf(phi.Type()), expr)
			}
			phis = np
			exits = append(exits, f.region.exits...)
		}
		return st, phis, exits, true
	}
	// both keys are in the map being iterated (in the state at the loop head)
	{
		m := f0.val(rng.X)
		hd := e.comp(headSt, md, e.comps[md])
		e.assume(headReach, fmt.Sprintf("(and (not (= %s 0)) (select (select %s %s) %s) (select (select %s %s) %s))", m, hd, m, k1, hd, m, k2))
	}
	ks0 := e.sortOf(mt.Key())
	e.ufDecls = append(e.ufDecls, fmt.Sprintf("(declare-fun uf_fresh (Int %s) Int)", ks0))
	stA, phA, exA, okA := runOrder(k1, k2, "a")
	stB, phB, exB, okB := runOrder(k2, k1, "b")
	e.commuteKey = ""
	// fresh addresses are positive offsets above everything allocated before, distinct per (site, key)
	seenRef := map[string]bool{}
	var uniq []commuteRef
	for _, r := range e.commuteRefs {
		k := fmt.Sprintf("%d/%s", r.site, r.key)
		if !seenRef[k] {
			seenRef[k] = true
			uniq = append(uniq, r)
		}
	}
	for i, r := range uniq {
		e.emit(fmt.Sprintf("(assert (> (uf_fresh %d %s) 0))", r.site, r.key))
		for _, q := range uniq[i+1:] {
			e.emit(fmt.Sprintf("(assert (not (= (uf_fresh %d %s) (uf_fresh %d %s))))", r.site, r.key, q.site, q.key))
		}
	}
	id := func(what string) string {
		return fmt.Sprintf("%s#commute[%s.%s]", c.Key(), label, what)
	}
	where := p.pos(h.Instrs[0].Pos())
	if !okA || !okB {
		o := e.oblige("commute", id("shape"), label, headReach, "false", where)
		o.Output = "the loop body never reaches the next iteration"
		res.Obls = e.obls
		res.Header = e.header()
		return res
	}
	// no early exit from the loop
	if len(exA)+len(exB) > 0 {
		all := append(append([]string{}, exA...), exB...)
		e.oblige("commute", id("noexit"), label, headReach, fmt.Sprintf("(not (or %s false))", strings.Join(all, " ")), where)
	}
	// equal loop-carried variables
	var phiNames []string
	byName := map[string]*ssa.Phi{}
	for phi := range phi0 {
		phiNames = append(phiNames, phi.Name())
		byName[phi.Name()] = phi
	}
	sort.Strings(phiNames)
	for _, pn := range phiNames {
		phi := byName[pn]
		nm := phi.Comment
		if nm == "" {
			nm = phi.Name()
		}
		e.oblige("commute", id("var."+nm), label, headReach, e.eqVal(phA[phi], phB[phi], phi.Type()), where)
	}
	// equal heap components
	keys := map[string]bool{}
	for k := range stA.h {
		keys[k] = true
	}
	for k := range stB.h {
		keys[k] = true
	}
	var ks []string
	for k := range keys {
		ks = append(ks, k)
	}
	sort.Strings(ks)
	for _, k := range ks {
		if strings.HasPrefix(k, "GHseen_") || strings.HasPrefix(k, "GHdefer_") {
			continue
		}
		ta, tb := e.comp(stA, k, e.comps[k]), e.comp(stB, k, e.comps[k])
		if ta == tb {
			continue
		}
		e.oblige("commute", id("mem."+k), label, headReach, fmt.Sprintf("(= %s %s)", ta, tb), where)
	}
	if stA.epoch != headSt.epoch || stB.epoch != headSt.epoch {
		e.oblige("commute", id("havoc"), label, headReach, "false", where).Output = "the loop body calls code whose effect is unknown (full havoc): order independence cannot be established"
	}
	if len(e.obls) == 0 {
		// nothing is modified: trivially order independent; keep one obligation so the loop stays counted
		e.oblige("commute", id("pure"), label, "true", "true", where)
	}
	res.Obls = e.obls
	res.Header = e.header()
	for a := range e.assumptions {
		res.Assumptions = append(res.Assumptions, a)
	}
	sort.Strings(res.Assumptions)
	return res
}

func argsOf(f *Frame, fn *ssa.Function) []string {
	var as []string
	for _, p := range fn.Params {
		as = append(as, f.vals[p])
	}
	return as
}
