package main

import (
	"fmt"
	"go/token"
	"go/types"
	"sort"
	"strings"

	"golang.org/x/tools/go/ssa"
)

type UnitResult struct {
	Key         string
	Contract    *Contract
	Enc         *Enc
	Obls        []*Obl
	Missing     bool
	Errors      []string
	Header      string
	Assumptions []string
	Instrs      int
}

// encodeUnit generates all obligations of one function under contract.
func (p *Program) encodeUnit(c *Contract) *UnitResult {
	res := &UnitResult{Key: c.Key(), Contract: c}
	fn := p.fnByKey[c.Key()]
	if fn == nil {
		fn = p.anonByKey[c.Key()]
	}
	if fn == nil || len(fn.Blocks) == 0 {
		res.Missing = true
		return res
	}
	for _, b := range fn.Blocks {
		res.Instrs += len(b.Instrs)
	}
	errBefore := len(p.errs)
	e := newEnc(p, c, fn)
	res.Enc = e
	st0 := &State{h: map[string]string{}, epoch: 0}
	st0.alloc = e.declare("alloc0", "Int")
	e.emit("(assert (>= alloc0 0))")
	e.st0 = st0
	f := e.newFrame(fn, 0)
	f.top = true
	e.topFrame = f
	// parameters
	var args []string
	f.params = map[string]CVal{}
	var shows []ShowVar
	for _, prm := range fn.Params {
		n := e.declare("|p."+prm.Name()+"|", e.sortOf(prm.Type()))
		e.assume("true", e.typeFact(n, prm.Type(), st0))
		args = append(args, n)
		f.params[prm.Name()] = CVal{S: n, T: prm.Type()}
		shows = append(shows, ShowVar{Name: prm.Name(), Term: n, Type: prm.Type()})
		// scalar fields of objects reachable from the parameter (for counterexample replay)
		var objTypes []types.Type
		ref := n
		if isIface(prm.Type()) {
			objTypes = e.dispatchTypes()
			ref = "(i_ref " + n + ")"
		} else if isPointerTo(prm.Type()) {
			objTypes = []types.Type{prm.Type()}
		}
		for _, ot := range objTypes {
			pt, ok := ot.Underlying().(*types.Pointer)
			if !ok {
				continue
			}
			st, ok := pt.Elem().Underlying().(*types.Struct)
			if !ok {
				continue
			}
			for i := 0; i < st.NumFields(); i++ {
				ft := st.Field(i).Type()
				if !(isInteger(ft) || isFloat(ft) || isString(ft) || isBool(ft)) {
					continue
				}
				fp := e.fieldPlace(ref, pt.Elem(), i)
				nm := fmt.Sprintf("|show.%s.%s|", prm.Name(), fp.comp)
				if e.declared[nm] {
					continue
				}
				e.declared[nm] = true
				e.emit(fmt.Sprintf("(define-fun %s () %s %s)", nm, e.sortOf(ft), e.load(st0, fp)))
				shows = append(shows, ShowVar{Name: nm, Term: nm, Type: ft})
			}
		}
	}
	// free variables of a function literal under contract: arbitrary values (captured variables are cells)
	for _, fv := range fn.FreeVars {
		n := e.declare("|fv."+fv.Name()+"|", e.sortOf(fv.Type()))
		e.assume("true", e.typeFact(n, fv.Type(), st0))
		if isPointerTo(fv.Type()) {
			e.assume("true", fmt.Sprintf("(not (= %s 0))", n))
		}
		f.vals[fv] = n
		f.params["fv_"+fv.Name()] = CVal{S: n, T: fv.Type()}
		// a captured variable that its function assigns exactly once (a parameter, a local initialised once) and that
		// the literal itself never assigns is a constant while the literal runs: its cell is modelled as storage
		// private to this unit, which no callee and no havoc can touch
		if pt, ok := fv.Type().(*types.Pointer); ok && assignedOnce(fn, fv) {
			switch pt.Elem().Underlying().(type) {
			case *types.Struct, *types.Array:
			default:
				name := "L_fv_" + sanitize(fv.Name())
				f.places[fv] = &Place{kind: "global", comp: name, typ: pt.Elem()}
				e.comp(st0, name, e.sortOf(pt.Elem()))
				cur := e.comp(st0, name, e.sortOf(pt.Elem()))
				if fact := e.typeFact(cur, pt.Elem(), st0); fact != "true" {
					e.assume("true", fact)
				}
				// in contracts: cap_<name> is the (constant) value of the captured variable
				f.params["cap_"+fv.Name()] = CVal{S: cur, T: pt.Elem()}
			}
		}
	}
	// a package initialiser is verified for its first (only effective) run
	if fn.Synthetic != "" && fn.Name() == "init" && fn.Pkg != nil {
		if g, ok := fn.Pkg.Members["init$guard"].(*ssa.Global); ok {
			name := globalCompName(g)
			e.emit(fmt.Sprintf("(assert (not %s))", e.comp(st0, name, "Bool")))
		}
	}
	// global invariants of the unit's package and of the packages it imports
	errs := []string{}
	for _, g := range p.CS.Globals {
		if g.Name != "" {
			used := false
			for _, u := range c.Uses {
				if u == g.Name {
					used = true
				}
			}
			if !used {
				continue
			}
		}
		tp := p.typesByPath[g.Pkg]
		env := &CEnv{e: e, vars: map[string]CVal{}, st: st0, old: st0, pkg: tp, errs: &errs}
		e.assume("true", env.evalBool(g.Expr))
		if g.Name != "" {
			e.note("axiom assumed (%s): %s", g.Name, g.Text)
		} else {
			e.note("global invariant assumed: %s", g.Text)
		}
	}
	// requires
	env0 := &CEnv{e: e, vars: f.params, st: st0, old: st0, pkg: fn.Pkg.Pkg, lets: c.Lets, errs: &errs}
	for _, r := range c.Requires {
		e.assume("true", env0.evalBool(r.Expr))
	}
	for _, r := range c.Assumes {
		e.assume("true", env0.evalBool(r.Expr))
		e.note("assumed about the inputs of %s [%s]: %s", shortKey(c.Key()), r.Label, r.Raw)
	}
	var caseConds []string
	if c.CaseAll {
		for _, cs := range c.Cases {
			caseConds = append(caseConds, e.define("case", "Bool", env0.evalBool(cs.Expr)))
		}
	}
	carveCond := ""
	if c.Carve != nil {
		carveCond = e.define("carve", "Bool", env0.evalBool(c.Carve.Expr))
	}
	// vacuity cover: the precondition (with type facts and global invariants) is satisfiable
	cov := e.oblige("cover", c.Key()+"#cover[requires]", "requires", "true", "false", c.Pos)
	cov.MustSat = true
	f.encodeBody(args, "true", st0.clone())
	reach, results, stF, ok := f.mergeReturns()
	if ok {
		for i := range results {
			nm := fmt.Sprintf("|result%d|", i)
			e.emit(fmt.Sprintf("(define-fun %s () %s %s)", nm, e.sortOf(fn.Signature.Results().At(i).Type()), results[i]))
			results[i] = nm
		}
		cov2 := e.oblige("cover", c.Key()+"#cover[return]", "return", reach, "false", c.Pos)
		cov2.MustSat = true
		vars := map[string]CVal{}
		for k, v := range f.params {
			vars[k] = v
		}
		for k, v := range resultVars(fn.Signature, results, c.Results) {
			vars[k] = v
		}
		post := &CEnv{e: e, vars: vars, st: stF, old: st0, pkg: fn.Pkg.Pkg, lets: c.Lets, errs: &errs, sel: f}
		for i, en := range c.Ensures {
			lab := en.Label
			if lab == "" {
				lab = fmt.Sprintf("e%d", i+1)
			}
			goal := post.evalBool(en.Expr)
			if len(c.Split) > 0 {
				// one obligation per combination of dynamic types of the split parameters, plus the remainder
				type combo struct {
					name string
					cond string
				}
				combos := []combo{{"", "true"}}
				for _, pn := range c.Split {
					pv, ok := f.params[pn]
					if !ok {
						continue
					}
					var next []combo
					for _, cb := range combos {
						for _, dt := range e.dispatchTypes() {
							nm := strings.TrimPrefix(shortTypeName(dt), "Pobject_")
							if cb.name != "" {
								nm = cb.name + "," + nm
							}
							next = append(next, combo{nm, fmt.Sprintf("(and %s (= (i_tag %s) %d))", cb.cond, pv.S, e.typeTag(dt))})
						}
					}
					combos = next
				}
				var all []string
				for _, cb := range combos {
					all = append(all, cb.cond)
					e.oblige("post", fmt.Sprintf("%s#post[%s|%s]", c.Key(), lab, cb.name), lab, reach, fmt.Sprintf("(=> %s %s)", cb.cond, goal), en.Line)
				}
				e.oblige("post", fmt.Sprintf("%s#post[%s|other]", c.Key(), lab), lab, reach, fmt.Sprintf("(=> (not (or %s)) %s)", strings.Join(all, " "), goal), en.Line)
				continue
			}
			if len(c.Cases) > 0 && !c.CaseAll {
				var all []string
				for ci, cs := range c.Cases {
					cl := cs.Label
					if cl == "" {
						cl = fmt.Sprintf("c%d", ci+1)
					}
					cond := env0.evalBool(cs.Expr)
					all = append(all, cond)
					e.oblige("post", fmt.Sprintf("%s#post[%s|%s]", c.Key(), lab, cl), lab, reach, fmt.Sprintf("(=> %s %s)", cond, goal), en.Line)
				}
				e.oblige("post", fmt.Sprintf("%s#post[%s|other]", c.Key(), lab), lab, reach, fmt.Sprintf("(=> (not (or %s false)) %s)", strings.Join(all, " "), goal), en.Line)
				continue
			}
			e.oblige("post", fmt.Sprintf("%s#post[%s]", c.Key(), lab), lab, reach, goal, en.Line)
		}
		// frame
		if c.HasMod && c.AssumeFrame {
			e.note("frame of %s is assumed, not proved (assumeframe)", c.Key())
		}
		if c.HasMod && !c.AssumeFrame {
			var names []string
			for n := range stF.h {
				names = append(names, n)
			}
			sort.Strings(names)
			for _, n := range names {
				if matchPrefix(n, c.ModComps) {
					continue
				}
				if fact := e.frameFact(n, st0, stF, f.modRefs(n)); fact != "" {
					e.oblige("frame", fmt.Sprintf("%s#frame[%s]", c.Key(), n), "frame", reach, fact, c.Pos)
				}
			}
			if stF.epoch != st0.epoch && !e.onlyPrefixHavocs(stF.epoch) {
				e.oblige("frame", fmt.Sprintf("%s#frame[*]", c.Key()), "frame", reach, "false", c.Pos).Output = "the function calls code without a contract (full havoc); its frame cannot be established"
			}
		}
	} else if len(c.Ensures) > 0 {
		res.Errors = append(res.Errors, "function has no return path")
	}
	if c.CaseAll && len(caseConds) > 0 {
		var out []*Obl
		for _, o := range e.obls {
			if o.MustSat {
				out = append(out, o)
				continue
			}
			for ci, cond := range caseConds {
				cl := c.Cases[ci].Label
				if cl == "" {
					cl = fmt.Sprintf("c%d", ci+1)
				}
				o2 := *o
				o2.ID = o.ID + "|" + cl
				o2.Goal = fmt.Sprintf("(=> %s %s)", cond, o.Goal)
				out = append(out, &o2)
			}
			o2 := *o
			o2.ID = o.ID + "|else"
			o2.Goal = fmt.Sprintf("(=> (not (or %s false)) %s)", strings.Join(caseConds, " "), o.Goal)
			out = append(out, &o2)
		}
		e.obls = out
	}
	if c.Carve != nil {
		cond := carveCond
		lab := c.Carve.Label
		if lab == "" {
			lab = "carved"
		}
		var extra []*Obl
		for _, o := range e.obls {
			if o.MustSat {
				continue
			}
			o2 := *o
			o2.ID = o.ID + "|" + lab
			o2.Goal = fmt.Sprintf("(=> (not %s) %s)", cond, o.Goal)
			o.Goal = fmt.Sprintf("(=> %s %s)", cond, o.Goal)
			extra = append(extra, &o2)
		}
		e.obls = append(e.obls, extra...)
	}
	for _, o := range e.obls {
		o.Show = shows
	}
	for _, m := range errs {
		p.contractError("%s: %s", c.Pos, m)
	}
	res.Errors = append(res.Errors, p.errs[errBefore:]...)
	res.Obls = e.obls
	res.Header = e.header()
	for a := range e.assumptions {
		res.Assumptions = append(res.Assumptions, a)
	}
	sort.Strings(res.Assumptions)
	for _, u := range e.unsupported {
		res.Assumptions = append(res.Assumptions, "unsupported instruction havocked: "+u)
	}
	return res
}

// smtFile renders the query for one obligation.
func (r *UnitResult) smtFile(o *Obl, withModel bool) string {
	var b strings.Builder
	if withModel {
		b.WriteString("(set-option :produce-models true)\n")
	}
	b.WriteString(r.Header)
	for _, l := range r.Enc.script[:o.Prefix] {
		if strings.Contains(l, "as const") && strings.Contains(l, "nilIface") && r.Enc.nilLit != "" {
			// cvc5 accepts only literal values in constant arrays
			l = strings.ReplaceAll(l, "nilIface", r.Enc.nilLit)
		}
		b.WriteString(l)
		b.WriteString("\n")
	}
	if o.MustSat {
		fmt.Fprintf(&b, "(assert %s)\n", o.Reach)
	} else {
		fmt.Fprintf(&b, "(assert %s)\n(assert (not %s))\n", o.Reach, o.Goal)
	}
	b.WriteString("(check-sat)\n")
	if withModel && len(o.Show) > 0 && !o.MustSat {
		var ts []string
		for _, s := range o.Show {
			if s.Type != nil && flatSort(r.Enc.sortOf(s.Type)) {
				ts = append(ts, s.Term)
			}
		}
		if len(ts) > 0 {
			fmt.Fprintf(&b, "(get-value (%s))\n", strings.Join(ts, " "))
		}
	}
	return b.String()
}

func flatSort(s string) bool {
	return true
}

var _ = types.Typ
var _ *ssa.Function

// assignedOnce: the variable captured as free variable fv of literal fn is stored to at most once in the enclosing
// function, never in a literal, and its address is used for nothing but loads, that store and captures.
func assignedOnce(fn *ssa.Function, fv *ssa.FreeVar) bool {
	parent := fn.Parent()
	if parent == nil {
		return false
	}
	idx := -1
	for i, v := range fn.FreeVars {
		if v == fv {
			idx = i
		}
	}
	var cell ssa.Value
	for _, b := range parent.Blocks {
		for _, in := range b.Instrs {
			if mc, ok := in.(*ssa.MakeClosure); ok && mc.Fn == fn && idx >= 0 && idx < len(mc.Bindings) {
				cell = mc.Bindings[idx]
			}
		}
	}
	a, ok := cell.(*ssa.Alloc)
	if !ok || a.Referrers() == nil {
		return false
	}
	stores := 0
	for _, r := range *a.Referrers() {
		switch x := r.(type) {
		case *ssa.DebugRef:
		case *ssa.UnOp:
			if x.Op != token.MUL {
				return false
			}
		case *ssa.Store:
			if x.Addr != a || x.Val == a {
				return false
			}
			stores++
		case *ssa.MakeClosure:
			// every literal capturing the cell must only load from it
			lit, _ := x.Fn.(*ssa.Function)
			if lit == nil {
				return false
			}
			for j, bnd := range x.Bindings {
				if bnd != a || j >= len(lit.FreeVars) || lit.FreeVars[j].Referrers() == nil {
					continue
				}
				for _, fr := range *lit.FreeVars[j].Referrers() {
					switch y := fr.(type) {
					case *ssa.DebugRef:
					case *ssa.UnOp:
						if y.Op != token.MUL {
							return false
						}
					default:
						return false
					}
				}
			}
		default:
			return false
		}
	}
	return stores <= 1
}
