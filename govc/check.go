package main

import (
	"encoding/json"
	"flag"
	"fmt"
	"os"
	"os/exec"
	"path/filepath"
	"regexp"
	"sort"
	"strconv"
	"strings"
	"time"
)

type KnownFinding struct {
	Property   string `json:"property"`
	Obligation string `json:"obligation"`
	Status     string `json:"status"` // known | fixed
	What       string `json:"what"`
	Witness    string `json:"witness,omitempty"`
	WitnessPkg string `json:"witness_pkg,omitempty"`
	WitnessFlg string `json:"witness_flags,omitempty"`
	WitnessTst string `json:"witness_test,omitempty"`
	Commit     string `json:"commit,omitempty"`
	KF         string `json:"kf,omitempty"`
}

type Claims struct {
	Property  string            `json:"property"`
	Claimed   []string          `json:"claimed"`
	Unclaimed map[string]string `json:"unclaimed"` // obligation id -> why it is not claimed
}

type Evidence struct {
	PropertyID  string         `json:"property_id"`
	Tier        string         `json:"tier"`
	Seed        int            `json:"seed"`
	Level       string         `json:"level"`
	Coverage    map[string]any `json:"coverage"`
	Assumptions []string       `json:"assumptions"`
	WallS       float64        `json:"wall_s"`
	Violations  int            `json:"violations"`
}

func verifRoot() string {
	if r := os.Getenv("VERIF_ROOT"); r != "" {
		return r
	}
	return "/verif"
}

func loadKnown() []KnownFinding {
	var k struct {
		Findings []KnownFinding `json:"findings"`
	}
	b, err := os.ReadFile(filepath.Join(verifRoot(), "known_findings.json"))
	if err == nil {
		json.Unmarshal(b, &k)
	}
	return k.Findings
}

func loadClaims(prop string) *Claims {
	c := &Claims{Property: prop, Unclaimed: map[string]string{}}
	b, err := os.ReadFile(filepath.Join(verifRoot(), "claims", prop+".json"))
	if err == nil {
		json.Unmarshal(b, c)
	}
	if c.Unclaimed == nil {
		c.Unclaimed = map[string]string{}
	}
	return c
}

func cmdCheck(args []string) int {
	fs := flag.NewFlagSet("check", flag.ExitOnError)
	repo := fs.String("repo", "/repo", "repository root")
	contracts := fs.String("contracts", filepath.Join(verifRoot(), "contracts"), "contract mirror")
	prop := fs.String("prop", "", "property id")
	tier := fs.String("tier", "quick", "quick|thorough")
	writeClaims := fs.Bool("write-claims", false, "rewrite the claims file from this run (maintenance)")
	noEvidence := fs.Bool("no-evidence", false, "do not write the evidence file")
	verbose := fs.Bool("v", false, "verbose")
	fs.Parse(args)
	if t := os.Getenv("VERIF_TIER"); t != "" && *tier == "" {
		*tier = t
	}
	seed := 0
	if s := os.Getenv("VERIF_SEED"); s != "" {
		seed, _ = strconv.Atoi(s)
	}
	t0 := time.Now()
	timeout := 45
	if *tier == "thorough" {
		timeout = 120
	}
	p, err := loadProgram(*repo, *contracts, defaultPatterns)
	if err != nil {
		// The tree does not load with the contract files (tag verif): a contract or proof harness names something
		// the code no longer has, or the code does not compile. The property cannot be established on this tree -
		// that is reported as a violation of the binding (no failing input), not as a tool error.
		fmt.Fprintln(os.Stderr, "govc: load failed:", err)
		repDir := filepath.Join(verifRoot(), "replays", *prop)
		os.MkdirAll(repDir, 0o755)
		path := filepath.Join(repDir, sanitize(*prop+"#binding.load")+".txt")
		os.WriteFile(path, []byte("obligation: "+*prop+"#binding[load]\nreason: /repo does not load together with the contract files (go/packages, -tags verif): the contracts and proof harnesses no longer bind to the code\n\n"+err.Error()+"\n\nno-failing-input-found\n"), 0o644)
		fmt.Printf("VIOLATION property=%s replay=%s no-failing-input-found\n  obligation: %s#binding[load]\n  reason: the tree does not load with the contract files: %v\n", *prop, path, *prop, err)
		fmt.Printf("%s %s: 0 units, 0 obligations, 0 discharged, 1 violations, 0 known findings\n", *prop, *tier)
		return 1
	}
	loadS := time.Since(t0).Seconds()
	var units []*UnitResult
	var trusted []string
	for _, k := range p.CS.Order {
		c := p.CS.Funcs[k]
		has := false
		for _, pr := range c.Props {
			if pr == *prop {
				has = true
			}
		}
		if !has {
			continue
		}
		if c.External || c.Trusted {
			trusted = append(trusted, k)
			for _, cr := range c.Commutes {
				units = append(units, p.encodeCommute(c, cr.Loop, cr.Label))
			}
			if c.TrustedPart {
				units = append(units, p.encodeCallPreOnly(c))
			}
			continue
		}
		if len(c.Commutes) > 0 {
			for _, cr := range c.Commutes {
				units = append(units, p.encodeCommute(c, cr.Loop, cr.Label))
			}
			if len(c.Ensures)+len(c.Requires)+len(c.Invs) == 0 && !c.Safety {
				continue
			}
		}
		units = append(units, p.encodeUnit(c))
	}
	for _, sc := range p.CS.Scans {
		for _, pr := range sc.Props {
			if pr == *prop {
				units = append(units, p.runScan(sc))
			}
		}
	}
	claims := loadClaims(*prop)
	known := loadKnown()
	kfByObl := map[string]KnownFinding{}
	for _, k := range known {
		if k.Property == *prop && k.Status == "known" {
			kfByObl[k.Obligation] = k
		}
	}
	for _, u := range units {
		for _, o := range u.Obls {
			if _, ok := matchKF(kfByObl, o.ID); ok {
				o.Quick = true
			}
			if _, ok := claims.Unclaimed[o.ID]; ok && !*writeClaims {
				o.Quick = true
			}
		}
	}
	// A unit may serve several properties. An obligation whose label names another property (label "Cxx.…") is not
	// part of this property's check: drop it here (generic obligations - frames, safety, unlabelled invariants and
	// preconditions, covers - stay).
	// a label may name several properties: "C09,C03.held" (one clause, checked under each of them)
	otherProp := regexp.MustCompile(`^C[0-9][0-9](,C[0-9][0-9])*\.`)
	labelNames := func(label, pr string) bool {
		m := otherProp.FindString(label)
		for _, x := range strings.Split(strings.TrimSuffix(m, "."), ",") {
			if x == pr {
				return true
			}
		}
		return false
	}
	orphanLabels := map[string]bool{}
	for _, u := range units {
		var keep []*Obl
		for _, o := range u.Obls {
			if otherProp.MatchString(o.Label) && !labelNames(o.Label, *prop) && u.Contract != nil && len(u.Contract.Props) > 1 {
				// ... but only if the property the label names checks this unit; otherwise the clause would be
				// dropped under every property and never checked at all (a silent hole, reported as a contract error)
				listed := false
				for _, pr := range u.Contract.Props {
					if labelNames(o.Label, pr) {
						listed = true
					}
				}
				// (preconditions inherited from a callee's contract carry the callee's labels: not this unit's clauses)
				ownClause := o.Kind != "pre" || strings.Contains(o.ID, "#pre[call.") || strings.Contains(o.ID, "#pre[dyn.")
				if !listed && ownClause {
					orphanLabels[fmt.Sprintf("%s: clause [%s] names a property that is not in the unit's props (%s): it would never be checked", shortKey(u.Key), o.Label, strings.Join(u.Contract.Props, " "))] = true
				}
				continue
			}
			keep = append(keep, o)
		}
		u.Obls = keep
	}
	dir, _ := os.MkdirTemp("/var/tmp", "govc-")
	defer os.RemoveAll(dir)
	solveAll(units, dir, timeout, 16, *tier == "thorough")

	claimed := map[string]bool{}
	for _, id := range claims.Claimed {
		claimed[id] = true
	}
	seen := map[string]*Obl{}
	type viol struct {
		id, why string
		o       *Obl
		u       *UnitResult
	}
	var viols []viol
	var kfLines []string
	kfFamily := map[string]int{}
	nObl, nDis := 0, 0
	perSolver := map[string]int{}
	solverSecs := 0.0
	var samples []any
	var unclaimedSeen []string
	var fns []string
	assume := map[string]bool{}
	for _, e := range p.errs {
		viols = append(viols, viol{id: *prop + "#contracts", why: "contract error: " + e})
	}
	for e := range orphanLabels {
		viols = append(viols, viol{id: *prop + "#contracts", why: "contract error: " + e})
	}
	for _, u := range units {
		fns = append(fns, shortKey(u.Key))
		if u.Missing {
			viols = append(viols, viol{id: u.Key + "#binding", why: "function under contract no longer exists (or has no body)", u: u})
			continue
		}
		for _, a := range u.Assumptions {
			assume[a] = true
		}
		for _, o := range u.Obls {
			seen[o.ID] = o
			solverSecs += o.Secs
			if o.MustSat {
				if o.Status == "unsat" {
					viols = append(viols, viol{id: o.ID, why: "vacuity: precondition/return path unsatisfiable", o: o, u: u})
				}
				continue
			}
			if k, isKF := matchKF(kfByObl, o.ID); isKF {
				if strings.Contains(k.Obligation, "@@") {
					// carve-out family: one line per listed finding
					if o.Status != "unsat" {
						kfFamily[k.Obligation]++
					} else if _, seen := kfFamily[k.Obligation]; !seen {
						kfFamily[k.Obligation] = 0
					}
					continue
				}
				if o.Status != "unsat" {
					kfLines = append(kfLines, fmt.Sprintf("KNOWN-FINDING: property=%s %s: %s [%s]", *prop, k.KF, k.What, o.ID))
				} else {
					kfLines = append(kfLines, fmt.Sprintf("NOTE: known finding %s no longer fails (%s)", k.KF, o.ID))
				}
				continue
			}
			if why, un := claims.Unclaimed[o.ID]; un {
				unclaimedSeen = append(unclaimedSeen, fmt.Sprintf("%s (%s; now %s)", o.ID, why, o.Status))
				assume["unclaimed obligation (not decided, not counted): "+o.ID+" — "+why] = true
				continue
			}
			nObl++
			if o.Status == "unsat" {
				nDis++
				perSolver[o.Solver]++
				if len(samples) < 6 {
					samples = append(samples, map[string]any{"obligation": o.ID, "kind": o.Kind, "solver": o.Solver, "secs": round3(o.Secs), "where": o.Where})
				}
				continue
			}
			viols = append(viols, viol{id: o.ID, why: "obligation not discharged: " + o.Status, o: o, u: u})
		}
	}
	for pat, n := range kfFamily {
		k := kfByObl[pat]
		if n > 0 {
			kfLines = append(kfLines, fmt.Sprintf("KNOWN-FINDING: property=%s %s: %s [%d obligations of %s]", *prop, k.KF, k.What, n, pat))
		} else {
			kfLines = append(kfLines, fmt.Sprintf("NOTE: known finding %s no longer fails (%s)", k.KF, pat))
		}
	}
	// known findings that no obligation speaks about (witness only) are reported on every run as well
	for _, k := range known {
		if k.Property == *prop && k.Status == "known" && strings.HasPrefix(k.Obligation, "(witness only") {
			kfLines = append(kfLines, fmt.Sprintf("KNOWN-FINDING: property=%s %s: %s [witness %s]", *prop, k.KF, k.What, k.Witness))
		}
	}
	sort.Strings(kfLines)
	// claimed obligations that disappeared
	if !*writeClaims {
		// vacuity guard: obligations named by contract labels (post / inv / frame) must still be generated;
		// call-site, safety and per-component frame obligations are keyed by call ordinals / the unit's component universe and legitimately come and go with edits
		for _, id := range claims.Claimed {
			if _, ok := seen[id]; ok {
				continue
			}
			if strings.Contains(id, "#pre[") || strings.Contains(id, "#safety[") || strings.Contains(id, "#overflow[") || strings.Contains(id, "#frame[") || strings.Contains(id, "#guard[") || strings.Contains(id, "@") {
				continue
			}
			viols = append(viols, viol{id: id, why: "claimed obligation is no longer generated (contract unbound or code path removed)"})
		}
		if len(claims.Claimed) == 0 && len(units) > 0 {
			fmt.Fprintln(os.Stderr, "govc: no claims file for", *prop)
		}
	}
	if *writeClaims {
		nc := &Claims{Property: *prop, Unclaimed: map[string]string{}}
		for _, u := range units {
			for _, o := range u.Obls {
				if o.MustSat {
					continue
				}
				if _, isKF := matchKF(kfByObl, o.ID); isKF {
					continue
				}
				if o.Status == "unsat" && o.Secs <= 12 && !neverClaimed(o.ID) {
					nc.Claimed = append(nc.Claimed, o.ID)
				} else {
					why := claims.Unclaimed[o.ID]
					if neverClaimed(o.ID) {
						why = "kept out of the claims (claims/never.txt): discharged, but the solver time is too close to the quick budget to promise it on every run"
					} else if why == "" || strings.HasPrefix(why, "kept out") {
						why = "undecided on the pinned tree: " + o.Status
					}
					nc.Unclaimed[o.ID] = why
				}
			}
		}
		sort.Strings(nc.Claimed)
		// maintenance guard: an obligation that was claimed and no longer is must be looked at, not dropped quietly
		newSet := map[string]bool{}
		for _, id := range nc.Claimed {
			newSet[id] = true
		}
		for _, id := range claims.Claimed {
			if !newSet[id] {
				why := nc.Unclaimed[id]
				if why == "" {
					why = "no longer generated"
				}
				fmt.Printf("DROPPED-CLAIM %s: %s\n", id, why)
			}
		}
		for id, why := range nc.Unclaimed {
			fmt.Printf("UNCLAIMED %s: %s\n", id, why)
		}
		b, _ := json.MarshalIndent(nc, "", " ")
		os.MkdirAll(filepath.Join(verifRoot(), "claims"), 0o755)
		os.WriteFile(filepath.Join(verifRoot(), "claims", *prop+".json"), append(b, '\n'), 0o644)
		fmt.Printf("wrote claims for %s: %d claimed, %d unclaimed\n", *prop, len(nc.Claimed), len(nc.Unclaimed))
	}
	// report
	for _, l := range kfLines {
		fmt.Println(l)
	}
	nviol := 0
	if !*writeClaims {
		repDir := filepath.Join(verifRoot(), "replays", *prop)
		for _, v := range viols {
			nviol++
			os.MkdirAll(repDir, 0o755)
			path := filepath.Join(repDir, sanitize(shortKey(v.id))+".txt")
			suffix := replayViolation(p, *repo, v.u, v.o, v.id, v.why, path)
			fmt.Printf("VIOLATION property=%s replay=%s %s\n", *prop, path, suffix)
			fmt.Printf("  obligation: %s\n  reason: %s\n", v.id, v.why)
		}
	}
	// thorough tier: replay the witnesses of recorded findings against the real code. A repaired defect whose
	// witness fails again is a violation at the level of behaviour (whatever the contracts say); a known finding
	// whose witness no longer fails is reported as a note.
	var witnessLines []string
	if *tier == "thorough" && !*writeClaims {
		done := map[string]bool{}
		for _, k := range known {
			if k.Property != *prop || k.Witness == "" || done[k.Witness+"#"+k.WitnessTst] {
				continue
			}
			done[k.Witness+"#"+k.WitnessTst] = true
			pass, out := runWitness(*repo, k)
			switch {
			case k.Status == "fixed" && !pass:
				nviol++
				repDir := filepath.Join(verifRoot(), "replays", *prop)
				os.MkdirAll(repDir, 0o755)
				path := filepath.Join(repDir, "witness_"+sanitize(k.KF)+".txt")
				os.WriteFile(path, []byte("witness of the repaired defect "+k.KF+" ("+k.Commit+") fails again on this tree\n"+k.What+"\n\n"+out), 0o644)
				fmt.Printf("VIOLATION property=%s replay=%s\n  witness %s of repaired defect %s fails again\n", *prop, path, k.Witness, k.KF)
				witnessLines = append(witnessLines, k.KF+": witness FAILS again (repaired defect returned)")
			case k.Status == "fixed":
				witnessLines = append(witnessLines, k.KF+": witness passes (defect stays repaired)")
			case pass:
				witnessLines = append(witnessLines, k.KF+": witness of the known finding no longer fails on this tree")
				fmt.Printf("NOTE property=%s the witness of known finding %s no longer fails\n", *prop, k.KF)
			default:
				witnessLines = append(witnessLines, k.KF+": witness fails as recorded (finding reproduces on the real code)")
			}
		}
	}
	if *verbose {
		for _, u := range units {
			for _, o := range u.Obls {
				fmt.Printf("  %-7s %-6s %6.2fs %s\n", o.Status, o.Solver, o.Secs, o.ID)
			}
		}
	}
	var as []string
	for a := range assume {
		as = append(as, a)
	}
	for _, t := range trusted {
		as = append(as, "assumed (trusted/external) contract: "+t)
	}
	if len(p.overlayDiffers) > 0 {
		as = append(as, "contract files in the repository tree differ from /verif/contracts (the /verif copy was used): "+strings.Join(p.overlayDiffers, ", "))
	}
	if len(p.overlayUsed) > 0 {
		as = append(as, "contract files supplied through the loader overlay from /verif/contracts (not present in the repository tree): "+strings.Join(p.overlayUsed, ", "))
	}
	sort.Strings(as)
	sort.Strings(fns)
	if len(samples) == 0 {
		samples = append(samples, "no obligation discharged")
	}
	ev := Evidence{PropertyID: *prop, Tier: *tier, Seed: seed, Level: "proof", Assumptions: as, WallS: round3(time.Since(t0).Seconds()), Violations: nviol}
	ev.Coverage = map[string]any{
		"obligations":              nObl,
		"discharged":               nDis,
		"checker_cmd":              fmt.Sprintf("govc check -prop %s -tier %s (go/ssa VC generation from %s; z3-new 5.1.0 | cvc5 1.0.3 | z3 4.8.12, %ds per obligation)", *prop, *tier, *repo, timeout),
		"trusted_base":             []string{"go/ssa (x/tools v0.29.0) SSA construction", "govc encoder (memory model, Go semantics of the supported SSA subset)", "SMT solvers z3 5.1.0 / cvc5 1.0.3 / z3 4.8.12", "assumed contracts and models listed under assumptions"},
		"samples":                  samples,
		"functions_under_contract": fns,
		"discharged_by_backend":    perSolver,
		"solver_time_s":            round3(solverSecs),
		"load_time_s":              round3(loadS),
		"known_findings":           kfLines,
		"witness_replays":          witnessLines,
		"unclaimed_obligations":    unclaimedSeen,
		"claimed_in_file":          len(claims.Claimed),
		"explanation":              "every obligation is regenerated from the current source of " + *repo + " and must be unsat; unclaimed and known-finding obligations are listed but not counted",
	}
	if !*noEvidence {
		os.MkdirAll(filepath.Join(verifRoot(), "evidence"), 0o755)
		b, _ := json.MarshalIndent(ev, "", " ")
		os.WriteFile(filepath.Join(verifRoot(), "evidence", *prop+".json"), append(b, '\n'), 0o644)
	}
	fmt.Printf("%s %s: %d units, %d obligations, %d discharged, %d violations, %d known findings, %.1fs\n", *prop, *tier, len(units), nObl, nDis, nviol, len(kfLines), time.Since(t0).Seconds())
	if nviol > 0 {
		return 1
	}
	return 0
}

// matchKF finds the known finding for an obligation id; a finding's obligation may contain one '@@' wildcard.
func matchKF(m map[string]KnownFinding, id string) (KnownFinding, bool) {
	if k, ok := m[id]; ok {
		return k, true
	}
	for pat, k := range m {
		if i := strings.Index(pat, "@@"); i >= 0 {
			if strings.HasPrefix(id, pat[:i]) && strings.HasSuffix(id, pat[i+2:]) && len(id) >= len(pat)-2 {
				return k, true
			}
		}
	}
	return KnownFinding{}, false
}

func round3(f float64) float64 {
	return float64(int(f*1000+0.5)) / 1000
}

// runWitness runs one witness test (a Go test file kept under /verif/selftest/witness) inside the package of the
// repository it belongs to, injected through -overlay so that nothing is written to the repository.
func runWitness(repo string, k KnownFinding) (bool, string) {
	src := filepath.Join(verifRoot(), k.Witness)
	pkg := k.WitnessPkg
	if pkg == "" {
		pkg = "."
	}
	dir, err := os.MkdirTemp("/var/tmp", "govc-witness-")
	if err != nil {
		return false, err.Error()
	}
	defer os.RemoveAll(dir)
	target := filepath.Join(repo, pkg, "zz_verif_witness_test.go")
	ov := fmt.Sprintf(`{"Replace": {%q: %q}}`, target, src)
	ovPath := filepath.Join(dir, "overlay.json")
	os.WriteFile(ovPath, []byte(ov), 0o644)
	b, _ := os.ReadFile(src)
	name := "TestVerif"
	if m := regexp.MustCompile(`func (TestVerif\w+)\(`).FindSubmatch(b); m != nil {
		name = string(m[1])
	}
	if k.WitnessTst != "" {
		name = k.WitnessTst
	}
	args := []string{"test", "-overlay", ovPath, "-vet=off", "-count=1", "-timeout", "300s", "-run", "^" + name + "$"}
	if k.WitnessFlg != "" {
		args = append(args, strings.Fields(k.WitnessFlg)...)
	}
	args = append(args, "./"+pkg)
	cmd := exec.Command("go", args...)
	cmd.Dir = repo
	cmd.Env = append(os.Environ(), "GOWORK=off", "GOFLAGS=-mod=mod", "GOPROXY=off", "GOSUMDB=off")
	out, err := cmd.CombinedOutput()
	return err == nil, string(out)
}

// encodeCallPreOnly: for a "trusted callpre" contract the postconditions stay assumed, but the callpre obligations
// generated in the body (and the covers that show they are reachable) are checked.
func (p *Program) encodeCallPreOnly(c *Contract) *UnitResult {
	u := p.encodeUnit(c)
	var keep []*Obl
	for _, o := range u.Obls {
		// (loop invariants are kept: a checked postcondition may rest on them)
		ok := strings.Contains(o.ID, "#pre[call.") || strings.Contains(o.ID, "#pre[dyn.") || strings.Contains(o.ID, "#guard[store.") || strings.Contains(o.ID, "#cover[requires]") || strings.Contains(o.ID, "#inv[")
		for _, l := range c.TrustedKeep {
			if o.Label == l {
				ok = true
			}
		}
		if ok {
			keep = append(keep, o)
		}
	}
	u.Obls = keep
	return u
}

// neverClaimed: obligations listed (by substring) in claims/never.txt are kept out of the claims whatever this run
// measured: their solver time is too close to the quick budget to promise them on every run.
func neverClaimed(id string) bool {
	b, err := os.ReadFile(filepath.Join(verifRoot(), "claims", "never.txt"))
	if err != nil {
		return false
	}
	for _, l := range strings.Split(string(b), "\n") {
		l = strings.TrimSpace(l)
		if l != "" && !strings.HasPrefix(l, "#") && strings.Contains(id, l) {
			return true
		}
	}
	return false
}
