package main

import (
	"fmt"
	"go/types"
	"sort"
	"strings"
)

// Sorts -----------------------------------------------------------------------------------

const (
	sortF64 = "(_ FloatingPoint 11 53)"
	sortF32 = "(_ FloatingPoint 8 24)"
)

func (e *Enc) bv() bool { return e.mode == "bv" }

// idxSort is the sort of slice lengths / indices (Go int).
func (e *Enc) idxSort() string {
	if e.bv() {
		return "(_ BitVec 64)"
	}
	return "Int"
}

func intWidth(b *types.Basic) (w int, signed bool) {
	switch b.Kind() {
	case types.Int8:
		return 8, true
	case types.Int16:
		return 16, true
	case types.Int32, types.UntypedRune:
		return 32, true
	case types.Int64, types.Int, types.UntypedInt:
		return 64, true
	case types.Uint8:
		return 8, false
	case types.Uint16:
		return 16, false
	case types.Uint32:
		return 32, false
	case types.Uint64, types.Uint, types.Uintptr:
		return 64, false
	}
	return 64, true
}

func sanitize(s string) string {
	var b strings.Builder
	for _, c := range s {
		switch {
		case c >= 'a' && c <= 'z', c >= 'A' && c <= 'Z', c >= '0' && c <= '9', c == '_':
			b.WriteRune(c)
		case c == '*':
			b.WriteString("P")
		case c == '.', c == '/':
			b.WriteString("_")
		case c == '[' || c == ']':
			b.WriteString("A")
		default:
			b.WriteString("x")
		}
	}
	return b.String()
}

func shortTypeName(t types.Type) string {
	s := types.TypeString(t, func(p *types.Package) string { return p.Name() })
	return sanitize(s)
}

func isInteger(t types.Type) bool {
	b, ok := t.Underlying().(*types.Basic)
	return ok && b.Info()&types.IsInteger != 0
}
func isFloat(t types.Type) bool {
	b, ok := t.Underlying().(*types.Basic)
	return ok && b.Info()&types.IsFloat != 0
}
func isString(t types.Type) bool {
	b, ok := t.Underlying().(*types.Basic)
	return ok && b.Info()&types.IsString != 0
}
func isBool(t types.Type) bool {
	b, ok := t.Underlying().(*types.Basic)
	return ok && b.Info()&types.IsBoolean != 0
}
func isUnsigned(t types.Type) bool {
	b, ok := t.Underlying().(*types.Basic)
	return ok && b.Info()&types.IsUnsigned != 0
}
func isIface(t types.Type) bool {
	_, ok := t.Underlying().(*types.Interface)
	return ok
}
func isPointerLike(t types.Type) bool {
	switch t.Underlying().(type) {
	case *types.Pointer, *types.Map, *types.Chan, *types.Signature:
		return true
	case *types.Basic:
		return t.Underlying().(*types.Basic).Kind() == types.UnsafePointer
	}
	return false
}

// sortOf maps a Go type to its SMT sort (declaring datatypes on demand).
func (e *Enc) sortOf(t types.Type) string {
	switch u := t.Underlying().(type) {
	case *types.Basic:
		switch {
		case u.Info()&types.IsBoolean != 0:
			return "Bool"
		case u.Info()&types.IsInteger != 0:
			if e.bv() {
				w, _ := intWidth(u)
				return fmt.Sprintf("(_ BitVec %d)", w)
			}
			return "Int"
		case u.Info()&types.IsFloat != 0:
			if u.Kind() == types.Float32 {
				return sortF32
			}
			return sortF64
		case u.Info()&types.IsString != 0:
			return "String"
		case u.Kind() == types.UnsafePointer:
			return "Int"
		case u.Kind() == types.UntypedNil:
			return "Int"
		}
		return "Int"
	case *types.Pointer, *types.Map, *types.Chan, *types.Signature:
		return "Int"
	case *types.Slice:
		return "Slice"
	case *types.Interface:
		return "Iface"
	case *types.Struct:
		return e.structSort(t, u)
	case *types.Array:
		return fmt.Sprintf("(Array %s %s)", e.idxSort(), e.sortOf(u.Elem()))
	case *types.Tuple:
		return "Int" // never used as a value
	}
	return "Int"
}

type structInfo struct {
	sort   string
	ctor   string
	fields []string // selector names
	fsorts []string
	st     *types.Struct
}

func (e *Enc) structSort(t types.Type, st *types.Struct) string {
	key := types.TypeString(t, nil)
	if si, ok := e.structs[key]; ok {
		return si.sort
	}
	name := "S_" + shortTypeName(t)
	if _, isNamed := t.(*types.Named); !isNamed {
		name = fmt.Sprintf("S_anon%d", len(e.structs))
	}
	si := &structInfo{sort: name, ctor: "mk_" + name, st: st}
	e.structs[key] = si // before recursion
	for i := 0; i < st.NumFields(); i++ {
		f := st.Field(i)
		si.fields = append(si.fields, fmt.Sprintf("%s_%s", name, sanitize(f.Name())))
		si.fsorts = append(si.fsorts, e.sortOf(f.Type()))
	}
	e.structOrder = append(e.structOrder, key)
	return name
}

func (e *Enc) structInfoOf(t types.Type) *structInfo {
	st := t.Underlying().(*types.Struct)
	e.structSort(t, st)
	return e.structs[types.TypeString(t, nil)]
}

func sortKey(s string) string {
	switch s {
	case "Int":
		return "Int"
	case "Bool":
		return "Bool"
	case "String":
		return "Str"
	case "Slice":
		return "Slice"
	case "Iface":
		return "Iface"
	case sortF64:
		return "F64"
	case sortF32:
		return "F32"
	}
	return sanitize(s)
}

// zero value of a type
func (e *Enc) zero(t types.Type) string {
	switch u := t.Underlying().(type) {
	case *types.Basic:
		switch {
		case u.Info()&types.IsBoolean != 0:
			return "false"
		case u.Info()&types.IsInteger != 0:
			return e.intLit(t, "0")
		case u.Info()&types.IsFloat != 0:
			if u.Kind() == types.Float32 {
				return "(_ +zero 8 24)"
			}
			return "(_ +zero 11 53)"
		case u.Info()&types.IsString != 0:
			return `""`
		}
		return "0"
	case *types.Slice:
		return e.nilSlice()
	case *types.Interface:
		return "nilIface"
	case *types.Struct:
		si := e.structInfoOf(t)
		if len(si.fields) == 0 {
			return si.ctor
		}
		var parts []string
		for i := 0; i < u.NumFields(); i++ {
			parts = append(parts, e.zero(u.Field(i).Type()))
		}
		return "(" + si.ctor + " " + strings.Join(parts, " ") + ")"
	case *types.Array:
		return fmt.Sprintf("((as const %s) %s)", e.sortOf(t), e.zero(u.Elem()))
	}
	return "0"
}

func (e *Enc) nilSlice() string {
	z := e.idxLit("0")
	return fmt.Sprintf("(mkSlice 0 %s %s %s)", z, z, z)
}

// intLit renders the decimal integer literal dec (possibly negative) at Go type t.
func (e *Enc) intLit(t types.Type, dec string) string {
	if e.bv() {
		w := 64
		if b, ok := t.Underlying().(*types.Basic); ok {
			w, _ = intWidth(b)
		}
		return bvLit(dec, w)
	}
	if strings.HasPrefix(dec, "-") {
		return "(- " + dec[1:] + ")"
	}
	return dec
}

func (e *Enc) idxLit(dec string) string {
	if e.bv() {
		return bvLit(dec, 64)
	}
	if strings.HasPrefix(dec, "-") {
		return "(- " + dec[1:] + ")"
	}
	return dec
}

func bvLit(dec string, w int) string {
	if strings.HasPrefix(dec, "-") {
		return fmt.Sprintf("(bvneg (_ bv%s %d))", dec[1:], w)
	}
	return fmt.Sprintf("(_ bv%s %d)", dec, w)
}

// Type tags ----------------------------------------------------------------------------------

func (e *Enc) typeTag(t types.Type) int {
	// byte and rune are aliases of uint8 and int32: one tag per identical type
	if b, ok := t.(*types.Basic); ok && b.Kind() <= types.UnsafePointer && b.Kind() > types.Invalid {
		t = types.Typ[b.Kind()]
	}
	k := types.TypeString(t, nil)
	if id, ok := e.tags[k]; ok {
		return id
	}
	id := len(e.tags) + 1
	e.tags[k] = id
	e.tagTypes[id] = t
	return id
}

// implFn returns the name of the predicate "dynamic type tag implements interface t".
func (e *Enc) implFn(t types.Type) string {
	k := types.TypeString(t, nil)
	if n, ok := e.impls[k]; ok {
		return n
	}
	n := "impl_" + shortTypeName(t)
	if _, isNamed := t.(*types.Named); !isNamed {
		n = fmt.Sprintf("impl_anon%d", len(e.impls))
	}
	e.impls[k] = n
	e.implTypes[n] = t
	return n
}

// box / unbox functions for non-pointer dynamic types
// opaqueBox reports whether values of sort s are boxed through an uninterpreted (lossy) function.
func opaqueBox(s string) bool {
	return strings.HasPrefix(s, "S_") || strings.HasPrefix(s, "(Array") || s == "Slice" || s == "Iface"
}

func (e *Enc) boxFn(t types.Type) (box, unbox string) {
	s := e.sortOf(t)
	k := sortKey(s)
	if opaqueBox(s) {
		if !e.ufSeen["obox_"+k] {
			e.ufSeen["obox_"+k] = true
			e.ufDecls = append(e.ufDecls, fmt.Sprintf("(declare-fun obox_%s (%s) Int)\n(declare-fun ounbox_%s (Int) %s)\n(define-fun box_%s ((t Int) (x %s)) Iface (mkI t (obox_%s x)))\n(define-fun ip_%s ((i Iface)) %s (ounbox_%s (i_ref i)))", k, s, k, s, k, s, k, k, s, k))
			e.note("struct/array values stored in interfaces are boxed opaquely (no injectivity)")
		}
		return "box_" + k, "ip_" + k
	}
	if _, ok := e.boxes[k]; !ok {
		e.boxes[k] = s
		e.boxZero[k] = e.zero(t)
	}
	return "box_" + k, "ip_" + k
}

// header assembles sort / function declarations; called after encoding.
func (e *Enc) header() string {
	var b strings.Builder
	b.WriteString("(set-logic ALL)\n")
	is := e.idxSort()
	fmt.Fprintf(&b, "(declare-datatypes ((Slice 0)) (((mkSlice (s_arr Int) (s_off %s) (s_len %s) (s_cap %s)))))\n", is, is, is)
	// interface values: (tag, ref) plus one payload field per boxed (non-pointer) dynamic sort
	var bk []string
	for k := range e.boxes {
		bk = append(bk, k)
	}
	sort.Strings(bk)
	var pf, zeros []string
	for _, k := range bk {
		pf = append(pf, fmt.Sprintf("(ip_%s %s)", k, e.boxes[k]))
		zeros = append(zeros, e.boxZero[k])
	}
	fmt.Fprintf(&b, "(declare-datatypes ((Iface 0)) (((mkIface (i_tag Int) (i_ref Int) %s))))\n", strings.Join(pf, " "))
	fmt.Fprintf(&b, "(define-fun mkI ((t Int) (r Int)) Iface (mkIface t r %s))\n", strings.Join(zeros, " "))
	b.WriteString("(define-fun nilIface () Iface (mkI 0 0))\n")
	e.nilLit = strings.TrimSpace(fmt.Sprintf("(mkIface 0 0 %s)", strings.Join(zeros, " ")))
	if len(zeros) == 0 {
		e.nilLit = "(mkIface 0 0)"
	}
	for i, k := range bk {
		zs := append([]string{}, zeros...)
		zs[i] = "x"
		fmt.Fprintf(&b, "(define-fun box_%s ((t Int) (x %s)) Iface (mkIface t 0 %s))\n", k, e.boxes[k], strings.Join(zs, " "))
	}
	for _, k := range e.structOrder {
		si := e.structs[k]
		if len(si.fields) == 0 {
			fmt.Fprintf(&b, "(declare-datatypes ((%s 0)) (((%s))))\n", si.sort, si.ctor)
			continue
		}
		var fs []string
		for i, f := range si.fields {
			fs = append(fs, fmt.Sprintf("(%s %s)", f, si.fsorts[i]))
		}
		fmt.Fprintf(&b, "(declare-datatypes ((%s 0)) (((%s %s))))\n", si.sort, si.ctor, strings.Join(fs, " "))
	}
	// implements predicates
	var ik []string
	for _, n := range e.impls {
		ik = append(ik, n)
	}
	sort.Strings(ik)
	for _, n := range ik {
		fmt.Fprintf(&b, "(declare-fun %s (Int) Bool)\n", n)
		it := e.implTypes[n].Underlying().(*types.Interface)
		var ids []int
		for id := range e.tagTypes {
			ids = append(ids, id)
		}
		sort.Ints(ids)
		for _, id := range ids {
			if types.Implements(e.tagTypes[id], it) {
				fmt.Fprintf(&b, "(assert (%s %d))\n", n, id)
			} else {
				fmt.Fprintf(&b, "(assert (not (%s %d)))\n", n, id)
			}
		}
		fmt.Fprintf(&b, "(assert (not (%s 0)))\n", n)
	}
	for _, d := range e.ufDecls {
		b.WriteString(d)
		b.WriteString("\n")
	}
	return b.String()
}
